#!/usr/bin/env python3
"""Evaluate seeded changes: (1) confirm each one (suite green, demo red with it, demo green without it) in a scratch
copy; (2) run the registered checks against a scratch copy of /repo with the change applied (VERIF_REPO).
usage: mutants.py confirm|detect <dir-with-<P>/out/m<k>.diff> [props...]"""
import glob, json, os, re, subprocess, sys, shutil
from concurrent.futures import ThreadPoolExecutor

ROOT = sys.argv[2] if len(sys.argv) > 2 else "/tmp/mut"
OUT = os.environ.get("MUT_OUT", "/tmp/mv")
os.makedirs(OUT, exist_ok=True)


def sh(cmd, cwd=None, env=None, timeout=7200):
    p = subprocess.run(cmd, cwd=cwd, env=env, shell=isinstance(cmd, str), capture_output=True, text=True, timeout=timeout)
    return p.returncode, p.stdout + p.stderr


def muts():
    for d in sorted(glob.glob(os.path.join(ROOT, "C*", "out", "m*.diff"))):
        prop = d.split("/")[-3]
        k = os.path.basename(d)[:-5]
        yield prop, k, d


def copy_repo(dst):
    shutil.rmtree(dst, ignore_errors=True)
    subprocess.run(["rsync", "-a", "--exclude", "target", "--exclude", ".git", "/repo/", dst + "/"], check=True)
    subprocess.run("git init -q && git add -A && git -c user.email=a@b -c user.name=x commit -qm base", cwd=dst, shell=True, check=True)


def confirm(m):
    prop, k, diff = m
    name = f"{prop}_{k}"
    wt = f"{OUT}/confirm_{name}"
    copy_repo(wt)
    import threading
    env = dict(os.environ, CARGO_TARGET_DIR=f"{OUT}/target_confirm_{threading.get_ident() % 1000}", CARGO_NET_OFFLINE="true")
    res = {"id": name}
    rc, out = sh(["git", "apply", diff], cwd=wt)
    res["applies"] = rc == 0
    if rc:
        res["note"] = out[-300:]
        return res
    rc, out = sh("cargo test --offline 2>&1 | grep -E '^test result|FAILED|error' | head -5", cwd=wt, env=env)
    res["suite_green_with_change"] = ("94 passed; 0 failed" in out) and ("FAILED" not in out) and not re.search(r"(?m)^error", out)
    os.makedirs(f"{wt}/tests", exist_ok=True)
    shutil.copy(diff[:-5] + "_demo.rs", f"{wt}/tests/demo.rs")
    rc, out = sh("cargo test --offline --test demo 2>&1 | tail -8", cwd=wt, env=env)
    # (a demonstration that no longer COMPILES with the change - e.g. a type lost Send/Sync - is red as well)
    res["demo_red_with_change"] = "FAILED" in out or "panicked" in out or "test failed" in out or "could not compile `jsonpath-rust` (test \"demo\")" in out
    res["demo_out_with"] = out[-300:]
    sh(["git", "apply", "-R", diff], cwd=wt)
    rc, out = sh("cargo test --offline --test demo 2>&1 | tail -5", cwd=wt, env=env)
    res["demo_green_without_change"] = "test result: ok" in out and "FAILED" not in out
    shutil.rmtree(wt, ignore_errors=True)
    return res


def detect(m, props):
    prop, k, diff = m
    name = f"{prop}_{k}"
    wt = f"{OUT}/detect_{name}"
    copy_repo(wt)
    sh(["git", "apply", diff], cwd=wt)
    res = {"id": name, "checks": {}}
    for p in (props or [prop]):
        env = dict(os.environ, VERIF_REPO=wt)
        rc, out = sh([os.path.join(os.path.dirname(os.path.abspath(__file__)), "check"), p], env=env)
        viol = [l for l in out.splitlines() if l.startswith("VIOLATION")]
        und = [l for l in out.splitlines() if l.startswith("UNDECIDED")]
        summary = [l for l in out.splitlines() if re.match(r"C\d+ (quick|thorough):", l)]
        details = []
        for v in viol[:6]:
            mm = re.search(r"replay=(\S+)", v)
            if mm and os.path.exists(mm.group(1)):   # (replay files of concurrent runs may overwrite each other: informational only)
                try:
                    d = json.load(open(mm.group(1)))
                    details.append({"obligations": d.get("failed_obligations"), "backend": d.get("backend"), "unit": d.get("unit"),
                                    "has_cex": bool(d.get("counterexample")), "no_input": v.endswith("no-failing-input-found")})
                except Exception:
                    pass
        res["checks"][p] = {"exit": rc, "violations": len(viol), "undecided": und[:3], "details": details, "summary": summary[-1:] }
    shutil.rmtree(wt, ignore_errors=True)
    return res


def pack():
    """write /verif/seeded/<id>/{patch.diff, demo.rs, meta.json} from the confirmed changes and the detection results"""
    conf = {r["id"]: r for r in json.load(open(f"{OUT}/confirm.json"))}
    det = {}
    for f in sorted(glob.glob(f"{OUT}/detect*.json")):
        for r in json.load(open(f)):
            det.setdefault(r["id"], {}).update(r["checks"])
    for prop, k, diff in muts():
        name = f"{prop}_{k}"
        c = conf.get(name, {})
        if not (c.get("applies") and c.get("suite_green_with_change") and c.get("demo_red_with_change") and c.get("demo_green_without_change")):
            continue
        d = f"/verif/seeded/{os.environ.get('MUT_PREFIX', '')}{name}"
        os.makedirs(d, exist_ok=True)
        shutil.copy(diff, f"{d}/patch.diff")
        shutil.copy(diff[:-5] + "_demo.rs", f"{d}/demo.rs")
        md = open(diff[:-5] + ".md").read() if os.path.exists(diff[:-5] + ".md") else ""
        checks = det.get(name, {})
        meta = {
            "id": os.environ.get("MUT_PREFIX", "") + name, "breaks_property": prop, "author": "independent sub-agent (given only the property text and a scratch worktree)",
            "what_and_what_it_needs_to_manifest": md.strip()[:2500],
            "confirmed_by_me": {"base": "/repo HEAD at the time of confirmation", "applies": True, "existing_suite_green_with_change": True,
                                "demo_fails_with_change": True, "demo_passes_without_change": True,
                                "how": "bin/mutants.py confirm: scratch copy of /repo, git apply patch.diff, cargo test --offline (94+2 green), demo copied to tests/demo.rs: red with the change, green after git apply -R"},
            "detection": {p: {"exit": v["exit"], "violation_lines": v["violations"], "failed_obligations": [x for dd in v["details"] for x in (dd.get("obligations") or [])],
                              "with_failing_input": any(dd["has_cex"] and not dd["no_input"] for dd in v["details"]), "undecided": v["undecided"]} for p, v in checks.items()},
        }
        json.dump(meta, open(f"{d}/meta.json", "w"), indent=1)
        print(name, {p: v["exit"] for p, v in checks.items()})


def table():
    """markdown: seeded change x property -> what the check reported (from the detect*.json files in OUT)"""
    det = {}
    for f in sorted(glob.glob(f"{OUT}/detect*.json")):
        for r in json.load(open(f)):
            det.setdefault(r["id"], {}).update(r["checks"])
    props = ["C01", "C02", "C03", "C04", "C05", "C08", "C10", "C11", "C15"]
    print("| change | " + " | ".join(props) + " | first failed obligations (target property) |")
    print("|---|" + "---|" * (len(props) + 1))
    for name in sorted(det):
        row = []
        for p in props:
            c = det[name].get(p)
            if not c:
                row.append("")
                continue
            bk = sorted({d["backend"].split("-")[0] for d in c["details"]})
            row.append({0: "·", 1: "**V** " + "+".join(b[0] for b in bk), 2: "u"}.get(c["exit"], "?"))
        tgt = det[name].get(name.split("_")[0], {})
        obs = []
        for d in tgt.get("details", []):
            for o in d.get("obligations") or []:
                if o not in obs:
                    obs.append(o)
        print(f"| {name} | " + " | ".join(row) + " | " + ", ".join(obs[:3]) + " |")


def main():
    mode = sys.argv[1]
    if mode == "pack":
        return pack()
    if mode == "table":
        return table()
    props = sys.argv[3:]
    ms = list(muts())
    if mode == "confirm":
        with ThreadPoolExecutor(3) as ex:
            rs = list(ex.map(confirm, ms))
    else:
        with ThreadPoolExecutor(4) as ex:
            rs = list(ex.map(lambda m: detect(m, props), ms))
    tag = ("_" + "_".join(props)) if (mode == "detect" and props) else ""
    json.dump(rs, open(f"{OUT}/{mode}{tag}.json", "w"), indent=1)
    for r in rs:
        print(json.dumps(r))


main()
