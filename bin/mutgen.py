#!/usr/bin/env python3
"""Mechanical single-token mutants of the evaluator (structure-preserving), to measure how sensitive the contracts are.

  mutgen.py gen   -> /tmp/mg/m/<id>.diff  (+ index.json)         token-level operators on src/query/*.rs, src/parser/model.rs
  mutgen.py suite -> which mutants compile and keep the existing suite green ("survivors")
  mutgen.py eval  -> for every survivor: every Verus unit (real code of the mutated tree) + every bounded group;
                     reports killed-by-verus / killed-by-native / not killed
These are NOT the independent seeded changes of /verif/seeded (those come from sub-agents); they complement them.
"""
import json, os, re, shutil, subprocess, sys
from concurrent.futures import ThreadPoolExecutor
sys.path.insert(0, os.path.dirname(os.path.dirname(os.path.abspath(__file__))))
from vx.rust_text import tokenize

OUT = "/tmp/mg"
FILES = ["src/query/selector.rs", "src/query/segment.rs", "src/query/state.rs", "src/query/filter.rs", "src/query/atom.rs", "src/query/test.rs",
         "src/query/comparable.rs", "src/query/comparison.rs", "src/query/test_function.rs", "src/query/jp_query.rs", "src/query.rs", "src/parser/model.rs", "src/query/queryable.rs"]
if os.environ.get("MG_FILES"):      # restrict to some files (e.g. MG_FILES=queryable.rs,test_function.rs)
    FILES = [f for f in FILES if os.path.basename(f) in os.environ["MG_FILES"].split(",")]
OUT = os.environ.get("MG_OUT", OUT)
SWAP = {"<": ["<="], "<=": ["<"], ">": [">="], ">=": [">"], "==": ["!="], "!=": ["=="], "+": ["-"], "-": ["+"], "&&": ["||"], "||": ["&&"]}
IDENT = {"min": "max", "max": "min", "any": "all", "all": "any", "true": "false", "false": "true", "Some": None, "is_some": "is_none", "is_none": "is_some",
         "lhs": "rhs", "rhs": "lhs", "start": "end", "end": "start", "lower": "upper", "upper": "lower"}
NUM = {"0": ["1"], "1": ["0", "2"], "2": ["1"]}


def code_region(src):
    i = src.find("#[cfg(test)]")
    return src if i < 0 else src[:i]


def gen():
    shutil.rmtree(OUT, ignore_errors=True)
    os.makedirs(f"{OUT}/m")
    idx = []
    for rel in FILES:
        src = open(f"/repo/{rel}").read()
        code = code_region(src)
        toks = tokenize(code)
        # skip Display impls / fmt fns (not property relevant): crude, by line
        skip = set()
        for m in re.finditer(r"impl[^{]*Display[^{]*\{", code):
            depth, j = 0, m.end() - 1
            while j < len(code):
                depth += code[j] == "{"
                depth -= code[j] == "}"
                if depth == 0:
                    break
                j += 1
            skip.add((m.start(), j))
        def skipped(p):
            return any(a <= p <= b for a, b in skip)
        k = 0
        n = len(toks)
        for i, t in enumerate(toks):
            if skipped(t.start):
                continue
            reps = []
            two = code[t.start:t.start + 2]
            if t.kind == "punct":
                prev = toks[i - 1] if i else None
                if prev and prev.kind == "punct" and prev.end == t.start and (prev.text + t.text) in SWAP:
                    continue  # second char of a two-char operator
                if two in SWAP and i + 1 < n and toks[i + 1].start == t.start + 1:
                    if two in ("<=", ">=") and False:
                        pass
                    reps = [(t.start, t.start + 2, r) for r in SWAP[two]]
                elif t.text in ("<", ">") and i + 1 < n:
                    # comparison only (not generics): require spaces around
                    if code[t.start - 1] == " " and code[t.end] == " ":
                        reps = [(t.start, t.end, r) for r in SWAP[t.text]]
                elif t.text in ("+", "-") and code[t.start - 1] == " " and code[t.end] == " " and two not in ("->", "+=", "-="):
                    reps = [(t.start, t.end, r) for r in SWAP[t.text]]
                elif t.text == "!" and i + 1 < n and toks[i + 1].kind in ("ident",) and toks[i + 1].start == t.end and (i == 0 or toks[i - 1].text in "(,=|&{ " or toks[i-1].kind == "punct") and not (i and toks[i-1].kind == "ident"):
                    reps = [(t.start, t.end, "")]      # drop a negation
            elif t.kind == "ident" and t.text in IDENT and IDENT[t.text]:
                # only uses, not declarations: skip `fn name`, `let name`, field/param declarations `name:`
                prev = toks[i - 1].text if i else ""
                nxt = toks[i + 1].text if i + 1 < n else ""
                if prev in ("fn", "let", "mut", "|", ".") and t.text not in ("any", "all", "is_some", "is_none"):
                    continue
                if nxt == ":" and t.text not in ("true", "false"):
                    continue
                if t.text in ("any", "all", "is_some", "is_none", "min", "max") and nxt != "(":
                    continue
                reps = [(t.start, t.end, IDENT[t.text])]
            elif t.kind == "num" and t.text in NUM:
                reps = [(t.start, t.end, r) for r in NUM[t.text]]
            for a, b, r in reps:
                k += 1
                mid = f"{os.path.basename(rel)[:-3]}_{k:03d}"
                new = src[:a] + r + src[b:]
                line = src.count("\n", 0, a) + 1
                os.makedirs(f"{OUT}/w/{mid}/" + os.path.dirname(rel), exist_ok=True)
                open(f"{OUT}/w/{mid}/{rel}", "w").write(new)
                idx.append({"id": mid, "file": rel, "line": line, "from": src[a:b], "to": r, "context": src.split("\n")[line - 1].strip()[:120]})
    json.dump(idx, open(f"{OUT}/index.json", "w"), indent=1)
    print(len(idx), "mutants")


def mk_tree(m, dst):
    shutil.rmtree(dst, ignore_errors=True)
    subprocess.run(["rsync", "-a", "--exclude", "target", "--exclude", ".git", "/repo/", dst + "/"], check=True)
    shutil.copy(f"{OUT}/w/{m['id']}/{m['file']}", f"{dst}/{m['file']}")


def suite_one(args):
    m, slot = args
    dst = f"{OUT}/s{slot}"
    mk_tree(m, dst)
    env = dict(os.environ, CARGO_TARGET_DIR=f"{OUT}/t{slot}", CARGO_NET_OFFLINE="true")
    p = subprocess.run("cargo test --offline 2>&1 | grep -E '^test result|^error|FAILED' | head -5", cwd=dst, env=env, shell=True, capture_output=True, text=True, timeout=900)
    out = p.stdout
    m["compiles"] = not re.search(r"(?m)^error", out)
    m["suite_green"] = m["compiles"] and "94 passed; 0 failed" in out and "FAILED" not in out
    return m


def suite():
    idx = json.load(open(f"{OUT}/index.json"))
    slots = 4
    chunks = [[m for i, m in enumerate(idx) if i % slots == s] for s in range(slots)]
    def run_chunk(s):
        return [suite_one((m, s)) for m in chunks[s]]
    with ThreadPoolExecutor(slots) as ex:
        res = [m for ch in ex.map(run_chunk, range(slots)) for m in ch]
    res.sort(key=lambda m: m["id"])
    json.dump(res, open(f"{OUT}/index.json", "w"), indent=1)
    print(sum(m["suite_green"] for m in res), "survive the suite of", len(res), "(", sum(not m["compiles"] for m in res), "do not compile )")


def eval_one(args):
    m, slot = args
    from vx.driver import Run
    from vx import native
    dst = f"{OUT}/e{slot}"
    mk_tree(m, dst)
    os.environ["VERIF_REPO"] = dst
    import vx.driver as D
    D.REPO = dst
    run = Run("ALL", "quick", 0)
    try:
        names = [n for n, u in run.units.items() if u.status == "proved" and u.file == m["file"]] or []
        # units of the same file are the ones whose real body changed; callers see only contracts
        failed, undec = [], []
        with ThreadPoolExecutor(6) as ex:
            for n, r in zip(names, ex.map(run.verus_unit, names)):
                if r.status == "failed":
                    failed.append(n + ":" + ",".join(sorted({(f.clause or "safety").split(".", 1)[-1] for f in r.failures}))[:80])
                elif r.status != "proved":
                    undec.append(n)
        m["verus_failed"], m["verus_undecided"] = failed, undec
        res = native.run_groups(run, ["arith", "pointer_text", "name_lookup", "descendant", "selectors", "regex", "cmp_struct", "e2e_cmp", "e2e_fn", "e2e_filter", "text_arith", "text_filter", "text_plain", "text_union", "text_cmp", "custom", "ext_direct", "e2e_ext", "text_ext", "e2e"])
        nf = []
        if res:
            from vx import findings
            for r in res:
                for f in r["failures"]:
                    v = {"unit": f["obligation"].rsplit(".", 1)[0], "obligations": [f["obligation"]], "features": f["features"]}
                    if not findings.match_open(None, v) and not f["obligation"].endswith(".path"):
                        nf.append(f["obligation"])
                    elif f["obligation"].endswith(".path") and not any(x in f["features"] for x in ("member-name-needs-escaping",)):
                        nf.append(f["obligation"])
        else:
            nf = ["<native: " + "; ".join(run.undecided)[:100] + ">"]
        m["native_failed"] = sorted(set(nf))
    finally:
        run.cleanup()
    return m


def evaluate():
    idx = json.load(open(f"{OUT}/index.json"))
    surv = [m for m in idx if m.get("suite_green")]
    res = []
    for i, m in enumerate(surv):      # sequential: each evaluation already uses several cores
        res.append(eval_one((m, 0)))
        print(m["id"], m["file"], m["line"], repr(m["from"]), "->", repr(m["to"]), "| verus:", m["verus_failed"] or ("undecided " + str(m["verus_undecided"]) if m["verus_undecided"] else "-"), "| native:", m["native_failed"] or "-", flush=True)
        json.dump(res, open(f"{OUT}/eval.json", "w"), indent=1)
    kv = sum(bool(m["verus_failed"]) for m in res)
    kn = sum(bool(m["native_failed"]) for m in res)
    ka = sum(bool(m["verus_failed"] or m["native_failed"]) for m in res)
    print(f"survivors {len(res)}: killed by verus {kv}, by native {kn}, by either {ka}, not killed {len(res) - ka}")


{"gen": gen, "suite": suite, "eval": evaluate}[sys.argv[1]]()
