// ===== spec_arith.rs — RFC 9535 §2.3.3 / §2.3.4.2.2 arithmetic, written from the RFC text =====
pub open spec fn ijson(v: int) -> bool { -9007199254740991 <= v <= 9007199254740991 }
pub open spec fn opt_ijson(o: Option<i64>) -> bool { match o { Some(v) => ijson(v as int), None => true } }

pub open spec fn norm_s(i: int, len: int) -> int { if i >= 0 { i } else { len + i } }
pub open spec fn smin(a: int, b: int) -> int { if a <= b { a } else { b } }
pub open spec fn smax(a: int, b: int) -> int { if a >= b { a } else { b } }

// RFC 9535 2.3.3.2: index selector
pub open spec fn rfc_index(len: int, i: int) -> Option<int> {
    if i >= 0 { if i < len { Some(i) } else { None } } else { if len + i >= 0 { Some(len + i) } else { None } }
}

// RFC 9535 2.3.4.2.2: Bounds(start, end, step, len)
pub open spec fn rfc_lower(len: int, start: Option<i64>, end: Option<i64>, step: int) -> int {
    if step >= 0 {
        let s = match start { Some(v) => v as int, None => 0 };
        smin(smax(norm_s(s, len), 0), len)
    } else {
        let e = match end { Some(v) => v as int, None => -len - 1 };
        smin(smax(norm_s(e, len), -1), len - 1)
    }
}
pub open spec fn rfc_upper(len: int, start: Option<i64>, end: Option<i64>, step: int) -> int {
    if step >= 0 {
        let e = match end { Some(v) => v as int, None => len };
        smin(smax(norm_s(e, len), 0), len)
    } else {
        let s = match start { Some(v) => v as int, None => len - 1 };
        smin(smax(norm_s(s, len), -1), len - 1)
    }
}
// the RFC loops `i = lower; while i < upper { select a[i]; i += step }` and its mirror image
pub open spec fn rfc_seq_up(i: int, upper: int, step: int) -> Seq<int>
    decreases (if i < upper { upper - i } else { 0 })
{
    if step > 0 && i < upper { seq![i] + rfc_seq_up(i + step, upper, step) } else { Seq::empty() }
}
pub open spec fn rfc_seq_down(i: int, lower: int, step: int) -> Seq<int>
    decreases (if lower < i { i - lower } else { 0 })
{
    if step < 0 && lower < i { seq![i] + rfc_seq_down(i + step, lower, step) } else { Seq::empty() }
}
pub open spec fn rfc_slice(len: int, start: Option<i64>, end: Option<i64>, step: Option<i64>) -> Seq<int> {
    let st = match step { Some(v) => v as int, None => 1 };
    if st > 0 { rfc_seq_up(rfc_lower(len, start, end, st), rfc_upper(len, start, end, st), st) }
    else if st < 0 { rfc_seq_down(rfc_upper(len, start, end, st), rfc_lower(len, start, end, st), st) }
    else { Seq::empty() }
}

// ---- assumed std contracts (trusted base: std::cmp::{min,max} on i64, i64::abs) ----
pub uninterp spec fn std_min<T>(a: T, b: T) -> T;
pub uninterp spec fn std_max<T>(a: T, b: T) -> T;
pub assume_specification<T: std::cmp::Ord> [std::cmp::min](a: T, b: T) -> (r: T)
    ensures r == std_min(a, b);
pub assume_specification<T: std::cmp::Ord> [std::cmp::max](a: T, b: T) -> (r: T)
    ensures r == std_max(a, b);
pub broadcast axiom fn axiom_std_min_i64(a: i64, b: i64)
    ensures #[trigger] std_min::<i64>(a, b) == smin(a as int, b as int);
pub broadcast axiom fn axiom_std_max_i64(a: i64, b: i64)
    ensures #[trigger] std_max::<i64>(a, b) == smax(a as int, b as int);
pub assume_specification [i64::abs](x: i64) -> (r: i64)
    requires x != i64::MIN,
    ensures r == (if x >= 0 { x as int } else { -(x as int) });
// Option::map_or: the closure runs on the payload, the default is returned for None (assumed std contract)
pub assume_specification<T, U, F: FnOnce(T) -> U> [Option::<T>::map_or](o: Option<T>, d: U, f: F) -> (r: U)
    requires o matches Some(v) ==> f.requires((v,)),
    ensures match o { Some(v) => f.ensures((v,), r), None => r == d };
// std::cmp::Ordering is a plain enum: its PartialEq is structural equality
pub assume_specification[ <Ordering as PartialEq>::eq ](a: &Ordering, b: &Ordering) -> (r: bool)
    ensures r == (*a == *b);
