// ===== query_trait.rs — rule E6: trait `Query` of src/query.rs with a trait-level contract =====
// Each impl defines process_pre / process_rel by the monolithic spec functions of spec_rfc.rs.
pub trait Query {
    spec fn process_pre<'a, T: Queryable>(&self, state: State<'a, T>) -> bool;
    spec fn process_rel<'a, T: Queryable>(&self, state: State<'a, T>, r: State<'a, T>) -> bool;
    //@sig
    fn process<'a, T: Queryable>(&self, state: State<'a, T>) -> (r: State<'a, T>)
        requires self.process_pre(state),
        ensures self.process_rel(state, r);
}

// ---- filter-mode states: `@` is carried as State { data: Ref(Pointer { inner: current node, path: "" }) } ----
// (representation invariant of the evaluator, stated explicitly: an empty path marks the node under test)
pub open spec fn is_cur<'a, T: Queryable>(st: State<'a, T>) -> bool {
    st.data matches Data::Ref(p) && p.path@.len() == 0
}
pub open spec fn cur_of<'a, T: Queryable>(st: State<'a, T>) -> &'a T {
    match st.data { Data::Ref(p) => p.inner, _ => st.root }
}
pub open spec fn bool_state<'a, T: Queryable>(st: State<'a, T>, r: State<'a, T>, b: bool) -> bool {
    r.root == st.root && r.data == Data::<'a, T>::Value(T::from_bool_spec(b))
}
// a logical result: some value whose truth (as_bool == Some(true)) is b
pub open spec fn truth_state<'a, T: Queryable>(st: State<'a, T>, r: State<'a, T>, b: bool) -> bool {
    r.root == st.root && r.data is Value && truthy(r) == b
}
// the value a state denotes as a comparable: Nothing (None) or one JSON value
pub open spec fn denote<'a, T: Queryable>(d: Data<'a, T>) -> Option<T> {
    match d { Data::Value(v) => Some(v), Data::Ref(p) => Some(*p.inner), _ => None }
}
pub open spec fn truthy<'a, T: Queryable>(st: State<'a, T>) -> bool {
    st.data matches Data::Value(v) && v.as_bool_spec() == Some(true)
}
pub proof fn lemma_cur_nodes<'a, T: Queryable>(st: State<'a, T>)
    requires is_cur(st),
    ensures nodes(st.data) == seq![cur_node(cur_of(st))],
{
    assert(st.data->Ref_0.path@ =~= Seq::<char>::empty());
}
// node-mode relation shared by Selector / Segment / Vec<Segment> / JpQuery
pub open spec fn nodes_rel<'a, T: Queryable>(st: State<'a, T>, r: State<'a, T>, out: Seq<Node<'a, T>>) -> bool {
    r.root == st.root && (is_nodes(st.data) ==> is_nodes(r.data) && nodes(r.data) == out)
}
// what a function argument state denotes: a value (ValueType conversion, RFC 9535 2.4.2) and a node count
pub open spec fn data_value<'a, T: Queryable>(d: Data<'a, T>) -> Option<T> {
    match d {
        Data::Value(v) => Some(v),
        Data::Ref(p) => Some(*p.inner),
        Data::Refs(v) => if v@.len() == 1 { Some(*v@[0].inner) } else { None },
        Data::Nothing => None,
    }
}
pub open spec fn data_count<'a, T: Queryable>(d: Data<'a, T>) -> int {
    match d { Data::Value(v) => 1, Data::Ref(p) => 1, Data::Refs(v) => v@.len() as int, Data::Nothing => 0 }
}
pub open spec fn arg_rel<'a, T: Queryable>(a: FnArg, st: State<'a, T>, r: State<'a, T>) -> bool {
    r.root == st.root && if arg_logical_fn(a) {
        // a LogicalType function result (only an extension function can take it): some value with that truth
        r.data is Value && (a matches FnArg::Test(t) && *t matches Test::Function(tf) && truthy(r) == fn_logical(*tf, cur_of(st), st.root))
    } else {
        data_value(r.data) == arg_value(arg_denote(a, cur_of(st), st.root))
        && data_count(r.data) == arg_count(arg_denote(a, cur_of(st), st.root))
        && (arg_value_typed(a) ==> !(r.data is Refs))
    }
}
// result of a function extension: a logical value, or a value / nothing
pub open spec fn fn_rel<'a, T: Queryable>(tf: TestFunction, st: State<'a, T>, r: State<'a, T>) -> bool {
    if fn_is_logical(tf) {
        truth_state(st, r, fn_logical(tf, cur_of(st), st.root))
    } else {
        r.root == st.root && !(r.data is Refs) && denote(r.data) == fn_value(tf, cur_of(st), st.root)
    }
}
// ---- singular query segments: one step, and the left fold over the segment list ----
pub open spec fn one_or_none<'a, T: Queryable>(d: Data<'a, T>) -> bool { d is Ref || d is Nothing }
pub open spec fn sqseg_rel<'a, T: Queryable>(s: SingularQuerySegment, st: State<'a, T>, r: State<'a, T>) -> bool {
    nodes_rel(st, r, mapped(nodes(st.data), |n: Node<'a, T>| sq_seg(s, n)))
    && (one_or_none(st.data) ==> one_or_none(r.data))
}
pub open spec fn sqsegs_rel<'a, T: Queryable>(segs: Seq<SingularQuerySegment>, st: State<'a, T>, r: State<'a, T>) -> bool {
    nodes_rel(st, r, sq_nodes(segs, nodes(st.data)))
    && (one_or_none(st.data) ==> one_or_none(r.data))
}
pub proof fn lemma_fold_sqsegs<'a, T: Queryable + 'a, F: Fn(State<'a, T>, &SingularQuerySegment) -> State<'a, T>>(
    f: F, xs: Seq<SingularQuerySegment>, init: State<'a, T>, r: State<'a, T>)
    requires
        forall|b: State<'a, T>, a: &SingularQuerySegment, o: State<'a, T>| #[trigger] f.ensures((b, a), o) ==> sqseg_rel(*a, b, o),
        fold_rel(f, xs, init, r),
    ensures sqsegs_rel(xs, init, r),
    decreases xs.len(),
{
    if xs.len() != 0 {
        let mid = choose|mid: State<'a, T>| fold_rel(f, xs.drop_last(), init, mid) && #[trigger] f.ensures((mid, &xs.last()), r);
        lemma_fold_sqsegs(f, xs.drop_last(), init, mid);
    }
}
// ---- segments ----
// the container nodes of a nodelist, in order (the evaluator expands `..` to containers only: a selector
// applied to a scalar selects nothing, lemma_sel_scalar)
pub open spec fn is_container<'a, T: Queryable>(n: Node<'a, T>) -> bool {
    n.inner.as_array_spec() is Some || n.inner.as_object_spec() is Some
}
pub open spec fn containers<'a, T: Queryable>(ns: Seq<Node<'a, T>>) -> Seq<Node<'a, T>>
    decreases ns.len()
{
    if ns.len() == 0 { Seq::empty() }
    else { let rest = containers(ns.drop_last()); if is_container(ns.last()) { rest.push(ns.last()) } else { rest } }
}
pub open spec fn desc_c_fn<'a, T: Queryable>() -> spec_fn(Node<'a, T>) -> Seq<Node<'a, T>> {
    |n: Node<'a, T>| containers(descendants(n))
}
pub open spec fn seg_rel<'a, T: Queryable>(s: Segment, st: State<'a, T>, r: State<'a, T>) -> bool {
    r.root == st.root && (is_nodes(st.data) ==> is_nodes(r.data))
    // KNOWN FINDING (process_selectors.order): a multi-selector segment concatenates per selector instead of
    // per input node, so the sequence claim is restricted to union-free segments
    && (is_nodes(st.data) && !has_union(s) ==> nodes(r.data) == rfc_seg(s, nodes(st.data), st.root))
    && (s matches Segment::Selector(sel) && (sel is Name || sel is Index) && one_or_none(st.data) ==> one_or_none(r.data))
}
pub open spec fn segs_rel<'a, T: Queryable>(segs: Seq<Segment>, st: State<'a, T>, r: State<'a, T>) -> bool {
    r.root == st.root && (is_nodes(st.data) ==> is_nodes(r.data))
    && (is_nodes(st.data) && union_free(segs) ==> nodes(r.data) == rfc_segs(segs, nodes(st.data), st.root))
    && (singular_segs(segs) && one_or_none(st.data) ==> one_or_none(r.data))
}
// ---- entry points ----
pub uninterp spec fn parsed(s: Seq<char>) -> Option<JpQuery>;
pub open spec fn qnode<'a, T: Queryable>(q: QueryRef<'a, T>) -> Node<'a, T> { Node { inner: q.0, path: q.1@ } }
pub open spec fn qnodes<'a, T: Queryable>(v: Seq<QueryRef<'a, T>>) -> Seq<Node<'a, T>> { v.map_values(|q: QueryRef<'a, T>| qnode(q)) }
pub proof fn lemma_fold_segs<'a, T: Queryable + 'a, F: Fn(State<'a, T>, &Segment) -> State<'a, T>>(
    f: F, xs: Seq<Segment>, init: State<'a, T>, r: State<'a, T>)
    requires
        forall|b: State<'a, T>, a: &Segment, o: State<'a, T>| #[trigger] f.ensures((b, a), o) ==> seg_rel(*a, b, o),
        fold_rel(f, xs, init, r),
    ensures segs_rel(xs, init, r),
    decreases xs.len(),
{
    if xs.len() != 0 {
        let mid = choose|mid: State<'a, T>| fold_rel(f, xs.drop_last(), init, mid) && #[trigger] f.ensures((mid, &xs.last()), r);
        lemma_fold_segs(f, xs.drop_last(), init, mid);
        assert(forall|i: int| 0 <= i < xs.drop_last().len() ==> xs.drop_last()[i] == xs[i]);
        assert(xs.last() == xs[xs.len() - 1]);
    }
}
