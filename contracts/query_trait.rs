// ===== query_trait.rs — rule E6: trait `Query` of src/query.rs with a trait-level contract =====
// Each impl defines process_pre / process_rel by the monolithic spec functions of spec_rfc.rs.
pub trait Query {
    spec fn process_pre<'a, T: Queryable>(&self, state: State<'a, T>) -> bool;
    spec fn process_rel<'a, T: Queryable>(&self, state: State<'a, T>, r: State<'a, T>) -> bool;
    //@sig
    fn process<'a, T: Queryable>(&self, state: State<'a, T>) -> (r: State<'a, T>)
        requires self.process_pre(state),
        ensures self.process_rel(state, r);
}

// ---- filter-mode states: `@` is carried as State { data: Ref(Pointer { inner: current node, path: "" }) } ----
// (representation invariant of the evaluator, stated explicitly: an empty path marks the node under test)
pub open spec fn is_cur<'a, T: Queryable>(st: State<'a, T>) -> bool {
    st.data matches Data::Ref(p) && p.path@.len() == 0
}
pub open spec fn cur_of<'a, T: Queryable>(st: State<'a, T>) -> &'a T {
    match st.data { Data::Ref(p) => p.inner, _ => st.root }
}
pub open spec fn bool_state<'a, T: Queryable>(st: State<'a, T>, r: State<'a, T>, b: bool) -> bool {
    r.root == st.root && r.data == Data::<'a, T>::Value(T::from_bool_spec(b))
}
// a logical result: some value whose truth (as_bool == Some(true)) is b
pub open spec fn truth_state<'a, T: Queryable>(st: State<'a, T>, r: State<'a, T>, b: bool) -> bool {
    r.root == st.root && r.data is Value && truthy(r) == b
}
// the value a state denotes as a comparable: Nothing (None) or one JSON value
pub open spec fn denote<'a, T: Queryable>(d: Data<'a, T>) -> Option<T> {
    match d { Data::Value(v) => Some(v), Data::Ref(p) => Some(*p.inner), _ => None }
}
pub open spec fn truthy<'a, T: Queryable>(st: State<'a, T>) -> bool {
    st.data matches Data::Value(v) && v.as_bool_spec() == Some(true)
}
pub proof fn lemma_cur_nodes<'a, T: Queryable>(st: State<'a, T>)
    requires is_cur(st),
    ensures nodes(st.data) == seq![cur_node(cur_of(st))],
{
    assert(st.data->Ref_0.path@ =~= Seq::<char>::empty());
}
// node-mode relation shared by Selector / Segment / Vec<Segment> / JpQuery
pub open spec fn nodes_rel<'a, T: Queryable>(st: State<'a, T>, r: State<'a, T>, out: Seq<Node<'a, T>>) -> bool {
    r.root == st.root && (is_nodes(st.data) ==> is_nodes(r.data) && nodes(r.data) == out)
}
pub open spec fn test_reading<'a, T: Queryable>(t: Test, got: Seq<Node<'a, T>>, cur: &'a T, root: &'a T) -> bool {
    match t {
        Test::RelQuery(v) => rfc_reading(got, v@, seq![cur_node(cur)], root),
        Test::AbsQuery(q) => rfc_reading(got, q.segments@, seq![root_node(root)], root),
        Test::Function(tf) => true,
    }
}
// what a function argument state denotes: a value (ValueType conversion, RFC 9535 2.4.2) and a node count
pub open spec fn data_value<'a, T: Queryable>(d: Data<'a, T>) -> Option<T> {
    match d {
        Data::Value(v) => Some(v),
        Data::Ref(p) => Some(*p.inner),
        Data::Refs(v) => if v@.len() == 1 { Some(*v@[0].inner) } else { None },
        Data::Nothing => None,
    }
}
// the values a state hands over to an extension function: its value, or the values of its nodes in order
pub open spec fn data_vals<'a, T: Queryable>(d: Data<'a, T>) -> Seq<T> {
    match d {
        Data::Value(v) => seq![v],
        Data::Ref(p) => seq![*p.inner],
        Data::Refs(v) => v@.map_values(|p: Pointer<'a, T>| *p.inner),
        Data::Nothing => Seq::<T>::empty(),
    }
}
pub open spec fn data_count<'a, T: Queryable>(d: Data<'a, T>) -> int {
    match d { Data::Value(v) => 1, Data::Ref(p) => 1, Data::Refs(v) => v@.len() as int, Data::Nothing => 0 }
}
pub open spec fn arg_rel<'a, T: Queryable>(a: FnArg, st: State<'a, T>, r: State<'a, T>) -> bool {
    r.root == st.root && if arg_logical_fn(a) {
        // a LogicalType function result (only an extension function can take it): some value with that truth
        r.data is Value && (a matches FnArg::Test(t) && *t matches Test::Function(tf) && truthy(r) == fn_logical(*tf, cur_of(st), st.root))
    } else {
        data_value(r.data) == arg_value(arg_denote(a, cur_of(st), st.root))
        && data_count(r.data) == arg_count(arg_denote(a, cur_of(st), st.root))
        && (arg_value_typed(a) ==> !(r.data is Refs))
    }
}
// result of a function extension: a logical value, or a value / nothing
pub open spec fn fn_rel<'a, T: Queryable>(tf: TestFunction, st: State<'a, T>, r: State<'a, T>) -> bool {
    if fn_is_logical(tf) {
        truth_state(st, r, fn_logical(tf, cur_of(st), st.root))
    } else {
        r.root == st.root && !(r.data is Refs) && denote(r.data) == fn_value(tf, cur_of(st), st.root)
    }
}
// ---- singular query segments: one step, and the left fold over the segment list ----
pub open spec fn one_or_none<'a, T: Queryable>(d: Data<'a, T>) -> bool { d is Ref || d is Nothing }
pub open spec fn sqseg_rel<'a, T: Queryable>(s: SingularQuerySegment, st: State<'a, T>, r: State<'a, T>) -> bool {
    nodes_rel(st, r, mapped(nodes(st.data), |n: Node<'a, T>| sq_seg(s, n)))
    && (one_or_none(st.data) ==> one_or_none(r.data))
}
pub open spec fn sqsegs_rel<'a, T: Queryable>(segs: Seq<SingularQuerySegment>, st: State<'a, T>, r: State<'a, T>) -> bool {
    nodes_rel(st, r, sq_nodes(segs, nodes(st.data)))
    && (one_or_none(st.data) ==> one_or_none(r.data))
}
pub proof fn lemma_fold_sqsegs<'a, T: Queryable + 'a, F: Fn(State<'a, T>, &SingularQuerySegment) -> State<'a, T>>(
    f: F, xs: Seq<SingularQuerySegment>, init: State<'a, T>, r: State<'a, T>)
    requires
        forall|b: State<'a, T>, a: &SingularQuerySegment, o: State<'a, T>| #[trigger] f.ensures((b, a), o) ==> sqseg_rel(*a, b, o),
        fold_rel(f, xs, init, r),
    ensures sqsegs_rel(xs, init, r),
    decreases xs.len(),
{
    if xs.len() != 0 {
        let mid = choose|mid: State<'a, T>| fold_rel(f, xs.drop_last(), init, mid) && #[trigger] f.ensures((mid, &xs.last()), r);
        lemma_fold_sqsegs(f, xs.drop_last(), init, mid);
    }
}
// ---- segments ----
// the container nodes of a nodelist, in order (the evaluator expands `..` to containers only: a selector
// applied to a scalar selects nothing, lemma_sel_scalar)
pub open spec fn is_container<'a, T: Queryable>(n: Node<'a, T>) -> bool {
    n.inner.as_array_spec() is Some || n.inner.as_object_spec() is Some
}
pub open spec fn containers<'a, T: Queryable>(ns: Seq<Node<'a, T>>) -> Seq<Node<'a, T>>
    decreases ns.len()
{
    if ns.len() == 0 { Seq::empty() }
    else { let rest = containers(ns.drop_last()); if is_container(ns.last()) { rest.push(ns.last()) } else { rest } }
}
pub open spec fn desc_c_fn<'a, T: Queryable>() -> spec_fn(Node<'a, T>) -> Seq<Node<'a, T>> {
    |n: Node<'a, T>| containers(descendants(n))
}
// a segment is evaluated RFC-exactly on this input if it has no multi-selector part, or it IS a multi-selector
// segment that receives at most one input node (process_selectors.rfc_single_input)
pub open spec fn seg_exact<'a, T: Queryable>(s: Segment, input: Seq<Node<'a, T>>) -> bool {
    !has_union(s) || (s is Selectors && input.len() <= 1)
}
pub open spec fn seg_rel<'a, T: Queryable>(s: Segment, st: State<'a, T>, r: State<'a, T>) -> bool {
    r.root == st.root && (is_nodes(st.data) ==> is_nodes(r.data))
    // exactly the evaluator's nodelist impl_seg (spec_multiset.rs): equal to the RFC nodelist as a multiset for every
    // segment (lemma_seg_perm) and as a sequence whenever seg_exact holds (lemma_seg_exact) — a multi-selector
    // segment that receives several input nodes is the KNOWN FINDING KF-C02-union-order
    && (is_nodes(st.data) ==> nodes(r.data) == impl_seg(s, nodes(st.data), st.root))
    && (s matches Segment::Selector(sel) && (sel is Name || sel is Index) && one_or_none(st.data) ==> one_or_none(r.data))
}
pub open spec fn segs_rel<'a, T: Queryable>(segs: Seq<Segment>, st: State<'a, T>, r: State<'a, T>) -> bool {
    r.root == st.root && (is_nodes(st.data) ==> is_nodes(r.data))
    && (is_nodes(st.data) ==> nodes(r.data) == impl_segs(segs, nodes(st.data), st.root))
    && (singular_segs(segs) && one_or_none(st.data) ==> one_or_none(r.data))
}
// the RFC reading of an evaluator nodelist: the same nodes with the same multiplicities, always; the same sequence
// when no multi-selector segment receives several input nodes
pub open spec fn rfc_reading<'a, T: Queryable>(got: Seq<Node<'a, T>>, segs: Seq<Segment>, input: Seq<Node<'a, T>>, root: &'a T) -> bool {
    ms(got) == ms(rfc_segs(segs, input, root))
    && (segs_exact(segs, input.len() <= 1) ==> got == rfc_segs(segs, input, root))
}
pub proof fn lemma_rfc_reading<'a, T: Queryable>(segs: Seq<Segment>, input: Seq<Node<'a, T>>, root: &'a T)
    ensures rfc_reading(impl_segs(segs, input, root), segs, input, root),
{
    lemma_segs_perm(segs, input, root);
    if segs_exact(segs, input.len() <= 1) { lemma_segs_exact(segs, input, root); }
}
// ---- entry points ----
pub uninterp spec fn parsed(s: Seq<char>) -> Option<JpQuery>;
pub open spec fn qnode<'a, T: Queryable>(q: QueryRef<'a, T>) -> Node<'a, T> { Node { inner: q.0, path: q.1@ } }
pub open spec fn qnodes<'a, T: Queryable>(v: Seq<QueryRef<'a, T>>) -> Seq<Node<'a, T>> { v.map_values(|q: QueryRef<'a, T>| qnode(q)) }
pub proof fn lemma_fold_segs<'a, T: Queryable + 'a, F: Fn(State<'a, T>, &Segment) -> State<'a, T>>(
    f: F, xs: Seq<Segment>, init: State<'a, T>, r: State<'a, T>)
    requires
        forall|b: State<'a, T>, a: &Segment, o: State<'a, T>| #[trigger] f.ensures((b, a), o) ==> seg_rel(*a, b, o),
        fold_rel(f, xs, init, r),
    ensures segs_rel(xs, init, r),
    decreases xs.len(),
{
    if xs.len() != 0 {
        let mid = choose|mid: State<'a, T>| fold_rel(f, xs.drop_last(), init, mid) && #[trigger] f.ensures((mid, &xs.last()), r);
        lemma_fold_segs(f, xs.drop_last(), init, mid);
        assert(forall|i: int| 0 <= i < xs.drop_last().len() ==> xs.drop_last()[i] == xs[i]);
        assert(xs.last() == xs[xs.len() - 1]);
    }
}

// ---- multi-selector segments ----
// What process_selectors computes: every selector is applied to the WHOLE input list, the results are concatenated in
// selector order.  RFC 9535 2.5.1.2 wants: for each input node, the selectors in written order (mapped(input, sels_fn)).
// The two agree when the segment receives at most one input node (lemma_by_selector_single); in general only the
// multiset of the result is RFC-exact: that is the KNOWN FINDING KF-C02-union-order.
#[verifier::opaque]
pub open spec fn sels_by_selector<'a, T: Queryable>(ss: Seq<Selector>, input: Seq<Node<'a, T>>, root: &'a T) -> Seq<Node<'a, T>>
    decreases ss.len()
{
    if ss.len() == 0 { Seq::empty() } else { sels_by_selector(ss.drop_last(), input, root) + mapped(input, sel_fn(ss.last(), root)) }
}
pub proof fn lemma_by_selector_single<'a, T: Queryable>(ss: Seq<Selector>, input: Seq<Node<'a, T>>, root: &'a T)
    requires input.len() <= 1,
    ensures sels_by_selector(ss, input, root) == mapped(input, sels_fn(ss, root)),
    decreases ss.len(),
{
    reveal_with_fuel(sels_by_selector, 2);
    if input.len() == 0 {
        assert(input =~= Seq::<Node<'a, T>>::empty());
        lemma_mapped_none(sels_fn(ss, root));
        if ss.len() != 0 {
            lemma_by_selector_single(ss.drop_last(), input, root);
            lemma_mapped_none(sels_fn(ss.drop_last(), root));
            lemma_mapped_none(sel_fn(ss.last(), root));
        }
    } else {
        assert(input =~= seq![input[0]]);
        lemma_mapped_one(input[0], sels_fn(ss, root));
        if ss.len() != 0 {
            lemma_by_selector_single(ss.drop_last(), input, root);
            lemma_mapped_one(input[0], sels_fn(ss.drop_last(), root));
            lemma_mapped_one(input[0], sel_fn(ss.last(), root));
        }
    }
}
pub open spec fn selectors_rel<'a, T: Queryable>(ss: Seq<Selector>, st: State<'a, T>, r: State<'a, T>) -> bool {
    r.root == st.root && (is_nodes(st.data) ==> is_nodes(r.data) && nodes(r.data) == sels_by_selector(ss, nodes(st.data), st.root))
}
// induction over the accumulator sequence of the map-reduce
pub proof fn lemma_map_reduce_selectors<'a, T: Queryable>(ss: Seq<Selector>, st: State<'a, T>, ys: Seq<State<'a, T>>, acc: Seq<State<'a, T>>, k: int)
    requires
        ys.len() == ss.len(), acc.len() == ss.len(), 0 <= k < ss.len(),
        forall|i: int| 0 <= i < ss.len() ==> nodes_rel(st, #[trigger] ys[i], mapped(nodes(st.data), sel_fn(ss[i], st.root))),
        acc[0] == ys[0],
        forall|i: int| 1 <= i < ss.len() ==> (#[trigger] acc[i]).root == acc[i - 1].root
            && (is_nodes(acc[i - 1].data) && is_nodes(ys[i].data) ==> is_nodes(acc[i].data) && nodes(acc[i].data) == nodes(acc[i - 1].data) + nodes(ys[i].data)),
    ensures selectors_rel(ss.subrange(0, k + 1), st, acc[k]),
    decreases k,
{
    reveal_with_fuel(sels_by_selector, 2);
    let pre = ss.subrange(0, k + 1);
    assert(pre.last() == ss[k]);
    if k == 0 {
        assert(pre.drop_last() =~= Seq::<Selector>::empty());
        assert(sels_by_selector(pre.drop_last(), nodes(st.data), st.root) =~= Seq::<Node<'a, T>>::empty());
        assert(sels_by_selector(pre, nodes(st.data), st.root) =~= mapped(nodes(st.data), sel_fn(ss[0], st.root)));
    } else {
        lemma_map_reduce_selectors(ss, st, ys, acc, k - 1);
        assert(pre.drop_last() =~= ss.subrange(0, k));
    }
}

pub open spec fn reduce_rel<'a, T: Queryable>(a: State<'a, T>, b: State<'a, T>, o: State<'a, T>) -> bool {
    o.root == a.root && (is_nodes(a.data) && is_nodes(b.data) ==> is_nodes(o.data) && nodes(o.data) == nodes(a.data) + nodes(b.data))
}
pub proof fn lemma_selectors_from_map_reduce<'a, T: Queryable + 'a, F: Fn(&Selector) -> State<'a, T>, G: Fn(State<'a, T>, State<'a, T>) -> State<'a, T>>(
    f: F, g: G, ss: Seq<Selector>, st: State<'a, T>, r: State<'a, T>)
    requires
        ss.len() > 0,
        forall|s: &Selector, o: State<'a, T>| #[trigger] f.ensures((s,), o) ==> nodes_rel(st, o, mapped(nodes(st.data), sel_fn(*s, st.root))),
        forall|a: State<'a, T>, b: State<'a, T>, o: State<'a, T>| #[trigger] g.ensures((a, b), o) ==> reduce_rel(a, b, o),
        exists|ys: Seq<State<'a, T>>, acc: Seq<State<'a, T>>| map_reduce_ok(f, g, ss, ys, acc, r),
    ensures selectors_rel(ss, st, r),
{
    let (ys, acc) = choose|ys: Seq<State<'a, T>>, acc: Seq<State<'a, T>>| map_reduce_ok(f, g, ss, ys, acc, r);
    assert forall|i: int| 0 <= i < ss.len() implies nodes_rel(st, #[trigger] ys[i], mapped(nodes(st.data), sel_fn(ss[i], st.root))) by {
        assert(f.ensures((&ss[i],), ys[i]));
    }
    assert forall|i: int| 1 <= i < ss.len() implies (#[trigger] acc[i]).root == acc[i - 1].root
        && (is_nodes(acc[i - 1].data) && is_nodes(ys[i].data) ==> is_nodes(acc[i].data) && nodes(acc[i].data) == nodes(acc[i - 1].data) + nodes(ys[i].data)) by {
        assert(reduce_step(g, acc, ys, i));
    }
    lemma_map_reduce_selectors(ss, st, ys, acc, ss.len() - 1);
    assert(ss.subrange(0, ss.len() as int) =~= ss);
}
