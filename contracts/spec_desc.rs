// ===== spec_desc.rs — the evaluator expands `..` to container nodes only; RFC 9535 says all descendants. =====
// Proved here: that makes no difference, because every selector selects nothing from a scalar.
pub proof fn lemma_mapped_push<A, B>(x: Seq<A>, a: A, h: spec_fn(A) -> Seq<B>)
    ensures mapped(x.push(a), h) == mapped(x, h) + h(a),
{
    assert(x.push(a).map_values(h) =~= x.map_values(h).push(h(a)));
    lemma_concat_push(x.map_values(h), h(a));
}
pub proof fn lemma_containers_push<'a, T: Queryable>(x: Seq<Node<'a, T>>, a: Node<'a, T>)
    ensures containers(x.push(a)) == (if is_container(a) { containers(x).push(a) } else { containers(x) }),
{
    assert(x.push(a).drop_last() =~= x);
}
pub proof fn lemma_containers_add<'a, T: Queryable>(a: Seq<Node<'a, T>>, b: Seq<Node<'a, T>>)
    ensures containers(a + b) == containers(a) + containers(b),
    decreases b.len(),
{
    if b.len() == 0 {
        assert(a + b =~= a);
        assert(containers(a) + containers(b) =~= containers(a));
    } else {
        lemma_containers_add(a, b.drop_last());
        assert((a + b).drop_last() =~= a + b.drop_last());
        assert((a + b).last() == b.last());
        if is_container(b.last()) {
            assert(containers(a) + containers(b.drop_last()).push(b.last()) =~= (containers(a) + containers(b.drop_last())).push(b.last()));
        }
    }
}
pub proof fn lemma_containers_all<'a, T: Queryable>(x: Seq<Node<'a, T>>)
    ensures forall|i: int| 0 <= i < containers(x).len() ==> is_container(#[trigger] containers(x)[i]),
    decreases x.len(),
{
    if x.len() != 0 {
        lemma_containers_all(x.drop_last());
        let rest = containers(x.drop_last());
        assert forall|i: int| 0 <= i < containers(x).len() implies is_container(#[trigger] containers(x)[i]) by {
            if i < rest.len() { assert(containers(x)[i] == rest[i]); }
        }
    }
}
pub proof fn lemma_containers_fix<'a, T: Queryable>(x: Seq<Node<'a, T>>)
    requires forall|i: int| 0 <= i < x.len() ==> is_container(#[trigger] x[i]),
    ensures containers(x) == x,
    decreases x.len(),
{
    if x.len() != 0 {
        lemma_containers_fix(x.drop_last());
        assert(x.drop_last().push(x.last()) =~= x);
    }
}
// A: filtering distributes over `mapped`
pub proof fn lemma_containers_mapped<'a, T: Queryable>(x: Seq<Node<'a, T>>, g: spec_fn(Node<'a, T>) -> Seq<Node<'a, T>>)
    ensures containers(mapped(x, g)) == mapped(x, |n: Node<'a, T>| containers(g(n))),
    decreases x.len(),
{
    let gc = |n: Node<'a, T>| containers(g(n));
    if x.len() == 0 {
        lemma_mapped_none(g);
        lemma_mapped_none(gc);
    } else {
        lemma_containers_mapped(x.drop_last(), g);
        assert(x.drop_last().push(x.last()) =~= x);
        lemma_mapped_push(x.drop_last(), x.last(), g);
        lemma_mapped_push(x.drop_last(), x.last(), gc);
        lemma_containers_add(mapped(x.drop_last(), g), g(x.last()));
    }
}
// C: a per-node function that yields nothing on scalars only sees the containers
pub proof fn lemma_mapped_containers<'a, T: Queryable>(x: Seq<Node<'a, T>>, h: spec_fn(Node<'a, T>) -> Seq<Node<'a, T>>)
    requires forall|n: Node<'a, T>| !is_container(n) ==> #[trigger] h(n) == Seq::<Node<'a, T>>::empty(),
    ensures mapped(x, h) == mapped(containers(x), h),
    decreases x.len(),
{
    if x.len() == 0 {
    } else {
        lemma_mapped_containers(x.drop_last(), h);
        assert(x.drop_last().push(x.last()) =~= x);
        lemma_mapped_push(x.drop_last(), x.last(), h);
        if is_container(x.last()) {
            lemma_mapped_push(containers(x.drop_last()), x.last(), h);
        } else {
            assert(mapped(x.drop_last(), h) + h(x.last()) =~= mapped(x.drop_last(), h));
        }
    }
}
// D: every selector selects nothing from a scalar (RFC 9535 §2.3: name/wildcard/index/slice/filter
// apply to objects and arrays only)
pub proof fn lemma_sel_scalar<'a, T: Queryable>(s: Selector, n: Node<'a, T>, root: &'a T)
    requires !is_container(n),
    ensures rfc_sel(s, n, root) == Seq::<Node<'a, T>>::empty(),
{
    match s {
        Selector::Name(k) => { n.inner.get_only_on_objects(norm_key(k@)); }
        Selector::Filter(f) => {
            assert(children(n).len() == 0);
            assert(sel_filter(f, n, root) =~= Seq::<Node<'a, T>>::empty());
        }
        _ => {}
    }
}
pub proof fn lemma_sels_scalar<'a, T: Queryable>(ss: Seq<Selector>, n: Node<'a, T>, root: &'a T)
    requires !is_container(n),
    ensures rfc_sels(ss, n, root) == Seq::<Node<'a, T>>::empty(),
    decreases ss.len(),
{
    if ss.len() != 0 {
        lemma_sels_scalar(ss.drop_last(), n, root);
        lemma_sel_scalar(ss.last(), n, root);
    }
}
pub proof fn lemma_desc_scalar<'a, T: Queryable>(n: Node<'a, T>)
    requires !is_container(n),
    ensures containers(descendants(n)) == Seq::<Node<'a, T>>::empty(),
{
    let fuel = (n.inner.height_spec() + 1) as nat;
    assert(children(n) =~= Seq::<Node<'a, T>>::empty());
    assert(children(n).map_values(desc_step::<T>((fuel - 1) as nat)) =~= Seq::<Seq<Node<'a, T>>>::empty());
    assert(concat(Seq::<Seq<Node<'a, T>>>::empty()) =~= Seq::<Node<'a, T>>::empty());
    assert(descendants(n) =~= seq![n]);
    assert(seq![n].drop_last() =~= Seq::<Node<'a, T>>::empty());
    assert(containers(Seq::<Node<'a, T>>::empty()) =~= Seq::<Node<'a, T>>::empty());
    assert(containers(seq![n]) =~= Seq::<Node<'a, T>>::empty());
}
// B: a segment does not see the scalar nodes of its input
pub proof fn lemma_seg_ignores_scalars<'a, T: Queryable>(s: Segment, x: Seq<Node<'a, T>>, y: Seq<Node<'a, T>>, root: &'a T)
    requires containers(x) == containers(y),
    ensures rfc_seg(s, x, root) == rfc_seg(s, y, root),
    decreases s,
{
    match s {
        Segment::Selector(sel) => {
            let h = sel_fn(sel, root);
            assert forall|n: Node<'a, T>| !is_container(n) implies #[trigger] h(n) == Seq::<Node<'a, T>>::empty() by { lemma_sel_scalar(sel, n, root); }
            lemma_mapped_containers(x, h);
            lemma_mapped_containers(y, h);
        }
        Segment::Selectors(v) => {
            let h = sels_fn(v@, root);
            assert forall|n: Node<'a, T>| !is_container(n) implies #[trigger] h(n) == Seq::<Node<'a, T>>::empty() by { lemma_sels_scalar(v@, n, root); }
            lemma_mapped_containers(x, h);
            lemma_mapped_containers(y, h);
        }
        Segment::Descendant(b) => {
            let d = desc_fn::<T>();
            let dc = |n: Node<'a, T>| containers(d(n));
            lemma_containers_mapped(x, d);
            lemma_containers_mapped(y, d);
            assert forall|n: Node<'a, T>| !is_container(n) implies #[trigger] dc(n) == Seq::<Node<'a, T>>::empty() by { lemma_desc_scalar(n); }
            lemma_mapped_containers(x, dc);
            lemma_mapped_containers(y, dc);
            lemma_seg_ignores_scalars(*b, mapped(x, d), mapped(y, d), root);
        }
    }
}
// what Segment::process needs for `..`: expanding to containers only is RFC-exact
pub proof fn lemma_descendant_containers<'a, T: Queryable>(s: Segment, x: Seq<Node<'a, T>>, root: &'a T)
    ensures rfc_seg(s, mapped(x, desc_c_fn()), root) == rfc_seg(s, mapped(x, desc_fn()), root),
{
    let d = desc_fn::<T>();
    let dc = desc_c_fn::<T>();
    let dc2 = |n: Node<'a, T>| containers(d(n));
    assert(mapped(x, dc) == mapped(x, dc2)) by { assert(x.map_values(dc) =~= x.map_values(dc2)); }
    lemma_containers_mapped(x, d);            // containers(mapped(x, d)) == mapped(x, dc2)
    lemma_containers_all(mapped(x, d));
    lemma_containers_fix(containers(mapped(x, d)));   // containers(containers(..)) == containers(..)
    lemma_seg_ignores_scalars(s, mapped(x, dc), mapped(x, d), root);
}

// ---- unfolding descendants-or-self one level (used by process_descendant) ----
pub proof fn lemma_child_smaller<'a, T: Queryable>(n: Node<'a, T>, i: int)
    requires 0 <= i < children(n).len(),
    ensures children(n)[i].inner.height_spec() < n.inner.height_spec(),
{
    n.inner.children_are_smaller();
}
// the fuel only has to exceed the height: more fuel changes nothing
pub proof fn lemma_desc_fuel<'a, T: Queryable>(n: Node<'a, T>, f1: nat, f2: nat)
    requires f1 > n.inner.height_spec(), f2 > n.inner.height_spec(),
    ensures desc_fuel(n, f1) == desc_fuel(n, f2),
    decreases n.inner.height_spec(),
{
    let m1 = children(n).map_values(desc_step::<T>((f1 - 1) as nat));
    let m2 = children(n).map_values(desc_step::<T>((f2 - 1) as nat));
    assert forall|i: int| 0 <= i < children(n).len() implies #[trigger] m1[i] == m2[i] by {
        lemma_child_smaller(n, i);
        lemma_desc_fuel(children(n)[i], (f1 - 1) as nat, (f2 - 1) as nat);
    }
    assert(m1 =~= m2);
}
pub proof fn lemma_desc_unfold<'a, T: Queryable>(n: Node<'a, T>)
    ensures
        is_container(n) ==> desc_c_fn()(n) == seq![n] + mapped(children(n), desc_c_fn()),
        !is_container(n) ==> desc_c_fn()(n) == Seq::<Node<'a, T>>::empty(),
{
    if !is_container(n) {
        lemma_desc_scalar(n);
    } else {
        let h = n.inner.height_spec();
        let m1 = children(n).map_values(desc_step::<T>(((h + 1) - 1) as nat));
        let m2 = children(n).map_values(desc_fn::<T>());
        assert forall|i: int| 0 <= i < children(n).len() implies #[trigger] m1[i] == m2[i] by {
            lemma_child_smaller(n, i);
            lemma_desc_fuel(children(n)[i], h, (children(n)[i].inner.height_spec() + 1) as nat);
        }
        assert(m1 =~= m2);
        assert(descendants(n) == seq![n] + mapped(children(n), desc_fn()));
        lemma_containers_add(seq![n], mapped(children(n), desc_fn()));
        assert(seq![n].drop_last() =~= Seq::<Node<'a, T>>::empty());
        assert(containers(Seq::<Node<'a, T>>::empty()) =~= Seq::<Node<'a, T>>::empty());
        assert(containers(seq![n]) =~= seq![n]);
        lemma_containers_mapped(children(n), desc_fn());
        let dc2 = |c: Node<'a, T>| containers(desc_fn::<T>()(c));
        assert(children(n).map_values(dc2) =~= children(n).map_values(desc_c_fn::<T>()));
    }
}
