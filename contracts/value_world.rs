// ===== value_world.rs — only in the world of a unit of `impl Queryable for Value` (src/query/queryable.rs) =====
// serde_json cannot be linked by single-file Verus.  The dependency's type `serde_json::Value` is declared OPAQUE here and
// everything the verified body uses of it is an ASSUMED contract on the dependency, each over an uninterpreted spec function:
//   Value: Clone, Value == Value (serde_json's PartialEq), Value::as_array, From<bool> for Value, Value::Null.
// Extraction artefact, stated: in /repo `rhs.as_array()` on a `Value` resolves to serde_json's INHERENT `Value::as_array`;
// here (no inherent methods on the opaque type) it resolves to `Queryable::as_array`, whose real body in /repo is the
// one-line delegation `self.as_array()` to that inherent method — the same function.
#[verifier::external_body]
pub struct Value { _opaque: () }
impl Clone for Value {
    #[verifier::external_body]
    fn clone(&self) -> (r: Self) ensures r == *self { unimplemented!() }
}
pub uninterp spec fn value_eq(a: Value, b: Value) -> bool;          // serde_json: impl PartialEq for Value
pub uninterp spec fn value_as_array(v: &Value) -> Option<&Vec<Value>>;
pub uninterp spec fn value_as_object(v: &Value) -> Option<Seq<(&String, &Value)>>;
pub uninterp spec fn value_as_str(v: &Value) -> Option<Seq<char>>;
pub uninterp spec fn value_as_i64(v: &Value) -> Option<i64>;
pub uninterp spec fn value_as_f64(v: &Value) -> Option<f64>;
pub uninterp spec fn value_as_bool(v: &Value) -> Option<bool>;
pub uninterp spec fn value_get(v: &Value, key: Seq<char>) -> Option<&Value>;
pub uninterp spec fn value_null() -> Value;
pub uninterp spec fn value_from_bool(b: bool) -> Value;
pub uninterp spec fn value_from_i64(v: i64) -> Value;
pub uninterp spec fn value_from_f64(v: f64) -> Value;
pub uninterp spec fn value_from_str(s: Seq<char>) -> Value;
pub uninterp spec fn value_height(v: &Value) -> nat;
// rule E10: `a == b` on two `&Value` (std: `impl PartialEq<&B> for &A` forwards to the referents)
#[verifier::external_body]
pub fn vf_value_eq(a: &Value, b: &Value) -> (r: bool) ensures r == value_eq(*a, *b) { unimplemented!() }
// rule E6v: `b.into()` for bool -> Value (serde_json: impl From<bool> for Value); a dedicated helper because the generic
// VfInto<T: Queryable> instance would make `impl Queryable for Value` depend on itself
#[verifier::external_body]
pub fn vf_value_from_bool(b: bool) -> (r: Value) ensures r == value_from_bool(b) { unimplemented!() }
// two &str with the same characters are the same string (Verus' str has no extensionality of its own)
pub axiom fn axiom_str_ext(a: &str, b: &str) ensures a@ == b@ ==> a == b;
// rule E11: the slice pattern `[a, b]` matches exactly the slices of length 2 and binds references to the two elements
// (Rust reference, slice patterns).  The helper's body is proved against that reading.
pub fn vf_slice2<A>(v: &Vec<A>) -> (r: Option<(&A, &A)>)
    ensures v@.len() == 2 ==> r == Some((&v@[0], &v@[1])), v@.len() != 2 ==> r is None
{ if v.len() == 2 { Some((&v[0], &v[1])) } else { None } }

// ---- C14: the five documented extension functions as set membership over the data type's own equality ----
// `item == x` with the ARRAY ELEMENT on the left (in / nin) ...
pub open spec fn mem_of(l: Seq<Value>, x: Value) -> bool { exists|i: int| 0 <= i < l.len() && value_eq(#[trigger] l[i], x) }
// ... and `a_elem == b_elem` with the element of the FIRST array on the left (any_of / none_of / subset_of)
pub open spec fn mem_rev(l: Seq<Value>, x: Value) -> bool { exists|i: int| 0 <= i < l.len() && value_eq(x, #[trigger] l[i]) }
pub open spec fn c14_spec(name: Seq<char>, a: Seq<Value>) -> Value {
    if a.len() != 2 { value_null() }
    else if name == "in"@ { match value_as_array(&a[1]) { Some(l) => value_from_bool(mem_of(l@, a[0])), None => value_null() } }
    else if name == "nin"@ { match value_as_array(&a[1]) { Some(l) => value_from_bool(!mem_of(l@, a[0])), None => value_null() } }
    else if name == "any_of"@ { match (value_as_array(&a[0]), value_as_array(&a[1])) {
        (Some(x), Some(l)) => value_from_bool(exists|i: int| 0 <= i < x@.len() && mem_rev(l@, #[trigger] x@[i])), _ => value_null() } }
    else if name == "none_of"@ { match (value_as_array(&a[0]), value_as_array(&a[1])) {
        (Some(x), Some(l)) => value_from_bool(forall|i: int| 0 <= i < x@.len() ==> !mem_rev(l@, #[trigger] x@[i])), _ => value_null() } }
    else if name == "subset_of"@ { match (value_as_array(&a[0]), value_as_array(&a[1])) {
        (Some(x), Some(l)) => value_from_bool(forall|i: int| 0 <= i < x@.len() ==> mem_rev(l@, #[trigger] x@[i])), _ => value_null() } }
    else { value_null() }
}
// the laws the property states, as consequences of c14_spec (spec level; value_from_bool is injective on a faithful Value)
pub proof fn lemma_c14_laws(a: Seq<Value>)
    requires a.len() == 2, value_from_bool(true) != value_from_bool(false),
    ensures
        value_as_array(&a[1]) is Some ==> (c14_spec("nin"@, a) == value_from_bool(true) <==> c14_spec("in"@, a) == value_from_bool(false)),
        value_as_array(&a[0]) is Some && value_as_array(&a[1]) is Some ==>
            (c14_spec("none_of"@, a) == value_from_bool(true) <==> c14_spec("any_of"@, a) == value_from_bool(false)),
        (value_as_array(&a[0]) matches Some(x) && x@.len() == 0 && value_as_array(&a[1]) is Some) ==> c14_spec("subset_of"@, a) == value_from_bool(true),
{
    reveal_strlit("in"); reveal_strlit("nin"); reveal_strlit("none_of"); reveal_strlit("any_of"); reveal_strlit("subset_of");
    assert("in"@.len() == 2 && "nin"@.len() == 3 && "none_of"@.len() == 7 && "any_of"@.len() == 6 && "subset_of"@.len() == 9);
}

impl Queryable for Value {
    open spec fn as_array_spec(&self) -> Option<&Vec<Self>> { value_as_array(self) }
    open spec fn as_object_spec(&self) -> Option<Seq<(&String, &Self)>> { value_as_object(self) }
    open spec fn as_str_spec(&self) -> Option<Seq<char>> { value_as_str(self) }
    open spec fn as_i64_spec(&self) -> Option<i64> { value_as_i64(self) }
    open spec fn as_f64_spec(&self) -> Option<f64> { value_as_f64(self) }
    open spec fn as_bool_spec(&self) -> Option<bool> { value_as_bool(self) }
    open spec fn get_spec(&self, key: Seq<char>) -> Option<&Self> { value_get(self, key) }
    open spec fn null_spec() -> Self { value_null() }
    open spec fn from_bool_spec(b: bool) -> Self { value_from_bool(b) }
    open spec fn from_i64_spec(v: i64) -> Self { value_from_i64(v) }
    open spec fn from_f64_spec(v: f64) -> Self { value_from_f64(v) }
    open spec fn from_str_spec(s: Seq<char>) -> Self { value_from_str(s) }
    open spec fn ext_spec(name: Seq<char>, args: Seq<Self>) -> Self { c14_spec(name, args) }
    open spec fn height_spec(&self) -> nat { value_height(self) }
    // the other methods of this impl are thin delegations to serde_json (assumed faithful, like any implementor)
    #[verifier::external_body] fn get(&self, key: &str) -> (r: Option<&Self>) { unimplemented!() }
    #[verifier::external_body] fn as_array(&self) -> (r: Option<&Vec<Self>>) { unimplemented!() }
    #[verifier::external_body] fn as_object(&self) -> (r: Option<Vec<(&String, &Self)>>) { unimplemented!() }
    #[verifier::external_body] fn as_str(&self) -> (r: Option<&str>) { unimplemented!() }
    #[verifier::external_body] fn as_i64(&self) -> (r: Option<i64>) { unimplemented!() }
    #[verifier::external_body] fn as_f64(&self) -> (r: Option<f64>) { unimplemented!() }
    #[verifier::external_body] fn as_bool(&self) -> (r: Option<bool>) { unimplemented!() }
    #[verifier::external_body] fn null() -> (r: Self) { unimplemented!() }
    #[verifier::external_body] proof fn from_bool_roundtrip(b: bool) { }
    #[verifier::external_body] proof fn array_len_bound(&self) { }
    #[verifier::external_body] proof fn get_only_on_objects(&self, key: Seq<char>) { }
    #[verifier::external_body] proof fn children_are_smaller(&self) { }
/*@@VALUE_UNITS*/
}
