# Units: hand-written validators and typing tables of the parser layer that act as precondition sources — C08, C11, C10, C04
M = "src/parser/model.rs"

def op(chars):
    return "seq![" + ", ".join("'%s'" % c for c in chars) + "]"

UNITS = [
    Unit(name="validate_range", file="src/parser.rs", fn="validate_range", order=80, serves=["C08", "C11"],
         ensures=[
             ("ok", "r matches Ok(v) ==> v == val && ijson(val as int)"),
             ("err", "r is Err ==> !ijson(val as int)"),
         ]),
    Unit(name="TestFunction::is_comparable", file=M, impl="impl TestFunction", fn="is_comparable", order=80, serves=["C10", "C04"],
         ret_name="b", ensures=[("def", "b == !fn_is_logical(*self)")]),
    Unit(name="Comparison::try_new", file=M, impl="impl Comparison", fn="try_new", order=80, serves=["C04"],
         ensures=[
             ("eq", f"op == \"==\" ==> r == Ok::<Comparison, JsonPathError>(Comparison::Eq(left, right))"),
             ("ne", f"op == \"!=\" ==> r == Ok::<Comparison, JsonPathError>(Comparison::Ne(left, right))"),
             ("gt", f"op == \">\" ==> r == Ok::<Comparison, JsonPathError>(Comparison::Gt(left, right))"),
             ("gte", f"op == \">=\" ==> r == Ok::<Comparison, JsonPathError>(Comparison::Gte(left, right))"),
             ("lt", f"op == \"<\" ==> r == Ok::<Comparison, JsonPathError>(Comparison::Lt(left, right))"),
             ("lte", f"op == \"<=\" ==> r == Ok::<Comparison, JsonPathError>(Comparison::Lte(left, right))"),
             ("operands", "r matches Ok(c) ==> cmp_lhs(c) == left && cmp_rhs(c) == right"),
         ]),

    # constructors the AST builder of src/parser.rs calls (the builder itself is pest `Pair` code, out of reach)
    Unit(name="JpQuery::new", file=M, impl="impl JpQuery", fn="new", order=80, serves=["C01"],
         ensures=[("def", "r.segments == segments")]),
    Unit(name="slice_from", file=M, fn="slice_from", order=80, serves=["C11", "C01"],
         ensures=[("def", "r == Selector::Slice(__p0.0, __p0.1, __p0.2)")]),
    Unit(name="FilterAtom::filter", file=M, impl="impl FilterAtom", fn="filter", order=80, serves=["C05"],
         ensures=[("def", "r == (FilterAtom::Filter { expr: Box::new(expr), not })")]),
    Unit(name="FilterAtom::test", file=M, impl="impl FilterAtom", fn="test", order=80, serves=["C05"],
         ensures=[("def", "r == (FilterAtom::Test { expr: Box::new(expr), not })")]),
    Unit(name="FilterAtom::cmp", file=M, impl="impl FilterAtom", fn="cmp", order=80, serves=["C05", "C04"],
         ensures=[("def", "r == FilterAtom::Comparison(cmp)")]),
    # TestFunction::try_new (arity / argument typing of the five standard functions) stays outside the store: Verus rejects its
    # slice patterns (`("length", [a]) => ..`); turning them into length tests and indexing would be a rewrite of the function,
    # not an extraction rule.  The typing tables it relies on (is_lit, is_filter, is_comparable, is_res_bool) are proved below.
    Unit(name="FnArg::is_lit", file=M, impl="impl FnArg", fn="is_lit", order=80, serves=["C10"],
         ret_name="b", ensures=[("def", "b == (*self is Literal)")]),
    Unit(name="FnArg::is_filter", file=M, impl="impl FnArg", fn="is_filter", order=80, serves=["C10"],
         ret_name="b", ensures=[("def", "b == (*self is Filter)")]),
    Unit(name="State::is_nothing", file="src/query/state.rs", impl="impl<'a, T: Queryable> State<'a, T>", fn="is_nothing", order=80, serves=["C10"],
         ret_name="b", ensures=[("def", "b == (self.data is Nothing)")]),
]
