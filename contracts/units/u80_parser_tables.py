# Units: hand-written validators and typing tables of the parser layer that act as precondition sources — C08, C11, C10, C04
M = "src/parser/model.rs"

def op(chars):
    return "seq![" + ", ".join("'%s'" % c for c in chars) + "]"

UNITS = [
    Unit(name="validate_range", file="src/parser.rs", fn="validate_range", order=80, serves=["C08", "C11"],
         ensures=[
             ("ok", "r matches Ok(v) ==> v == val && ijson(val as int)"),
             ("err", "r is Err ==> !ijson(val as int)"),
         ]),
    Unit(name="TestFunction::is_comparable", file=M, impl="impl TestFunction", fn="is_comparable", order=80, serves=["C10", "C04"],
         ret_name="b", ensures=[("def", "b == !fn_is_logical(*self)")]),
    Unit(name="Comparison::try_new", file=M, impl="impl Comparison", fn="try_new", order=80, serves=["C04"],
         ensures=[
             ("eq", f"op == \"==\" ==> r == Ok::<Comparison, JsonPathError>(Comparison::Eq(left, right))"),
             ("ne", f"op == \"!=\" ==> r == Ok::<Comparison, JsonPathError>(Comparison::Ne(left, right))"),
             ("gt", f"op == \">\" ==> r == Ok::<Comparison, JsonPathError>(Comparison::Gt(left, right))"),
             ("gte", f"op == \">=\" ==> r == Ok::<Comparison, JsonPathError>(Comparison::Gte(left, right))"),
             ("lt", f"op == \"<\" ==> r == Ok::<Comparison, JsonPathError>(Comparison::Lt(left, right))"),
             ("lte", f"op == \"<=\" ==> r == Ok::<Comparison, JsonPathError>(Comparison::Lte(left, right))"),
             ("operands", "r matches Ok(c) ==> cmp_lhs(c) == left && cmp_rhs(c) == right"),
         ]),

    # constructors the AST builder of src/parser.rs calls (the builder itself is pest `Pair` code, out of reach)
    Unit(name="JpQuery::new", file=M, impl="impl JpQuery", fn="new", order=80, serves=["C01"],
         ensures=[("def", "r.segments == segments")]),
    Unit(name="slice_from", file=M, fn="slice_from", order=80, serves=["C11", "C01"],
         ensures=[("def", "r == Selector::Slice(__p0.0, __p0.1, __p0.2)")]),
    Unit(name="FilterAtom::filter", file=M, impl="impl FilterAtom", fn="filter", order=80, serves=["C05"],
         ensures=[("def", "r == (FilterAtom::Filter { expr: Box::new(expr), not })")]),
    Unit(name="FilterAtom::test", file=M, impl="impl FilterAtom", fn="test", order=80, serves=["C05"],
         ensures=[("def", "r == (FilterAtom::Test { expr: Box::new(expr), not })")]),
    Unit(name="FilterAtom::cmp", file=M, impl="impl FilterAtom", fn="cmp", order=80, serves=["C05", "C04"],
         ensures=[("def", "r == FilterAtom::Comparison(cmp)")]),
    # TestFunction::try_new: the function name / arity table (src/parser/model.rs).  Rule E11 (slice patterns): the scrutinee
    # `args.as_slice()` becomes `vf_slice_view(&args)` (a proved helper: a slice of length 0 / 1 / 2 / more, with references to the
    # elements) and the patterns `[a]`, `[a, b]` become `SV::S1(a)`, `SV::S2(a, b)`; the nested fn gets its contract in place.
    Unit(name="TestFunction::try_new", file=M, impl="impl TestFunction", fn="try_new", order=80, serves=["C10", "C14"],
         text_rewrites=[("E11", "match (name, args.as_slice()) {", "match (name, vf_slice_view(&args)) {", 1),
                        ("E11", "[@1, @2]) =>", "SV::S2(@1, @2)) =>", 2),
                        ("E11", "[@1]) =>", "SV::S1(@1)) =>", 3),
                        ("E2n", ") -> Result<&'a FnArg, JsonPathError> {",
                         ") -> (__o: Result<&'a FnArg, JsonPathError>) ensures (*a is Literal || *a is Filter) ==> __o is Err, "
                         "!(*a is Literal || *a is Filter) ==> __o == Ok::<&FnArg, JsonPathError>(a), {", 1)],
         ensures=[
             ("length", "name == \"length\" && args@.len() == 1 ==> r == Ok::<TestFunction, JsonPathError>(TestFunction::Length(Box::new(args@[0])))"),
             ("value", "name == \"value\" && args@.len() == 1 ==> r == Ok::<TestFunction, JsonPathError>(TestFunction::Value(args@[0]))"),
             ("count", "name == \"count\" && args@.len() == 1 ==> (if args@[0] is Literal || args@[0] is Filter { r is Err } "
                       "else { r == Ok::<TestFunction, JsonPathError>(TestFunction::Count(args@[0])) })"),
             ("search", "name == \"search\" && args@.len() == 2 ==> r == Ok::<TestFunction, JsonPathError>(TestFunction::Search(args@[0], args@[1]))"),
             ("match", "name == \"match\" && args@.len() == 2 ==> r == Ok::<TestFunction, JsonPathError>(TestFunction::Match(args@[0], args@[1]))"),
             ("arity", "((name == \"length\" || name == \"value\" || name == \"count\") && args@.len() != 1) "
                       "|| ((name == \"search\" || name == \"match\") && args@.len() != 2) ==> r is Err"),
             # every other name is a call of the data type's extension hook, with the arguments as written (C14)
             ("custom", "name != \"length\" && name != \"value\" && name != \"count\" && name != \"search\" && name != \"match\" "
                        "==> (r matches Ok(TestFunction::Custom(n, a)) && n@ == name@ && a == args)"),
         ]),
    Unit(name="FnArg::is_lit", file=M, impl="impl FnArg", fn="is_lit", order=80, serves=["C10"],
         ret_name="b", ensures=[("def", "b == (*self is Literal)")]),
    Unit(name="FnArg::is_filter", file=M, impl="impl FnArg", fn="is_filter", order=80, serves=["C10"],
         ret_name="b", ensures=[("def", "b == (*self is Filter)")]),
    Unit(name="State::is_nothing", file="src/query/state.rs", impl="impl<'a, T: Queryable> State<'a, T>", fn="is_nothing", order=80, serves=["C10"],
         ret_name="b", ensures=[("def", "b == (self.data is Nothing)")]),
]
