# Units: src/query.rs entry points, src/parser.rs parse_json_path (assumed) — C01, C03, C08
F = "src/query.rs"
QR = "impl<'a, T: Queryable> QueryRef<'a, T>"

UNITS = [
    Unit(name="parse_json_path", file="src/parser.rs", fn="parse_json_path", order=70, status="assumed", serves=["C01", "C08"],
         why_assumed="pest recogniser (proc-macro generated, &str): unreachable by Verus and Kani (C06/C07 not applicable). "
                     "Assumed: a parsed query only contains I-JSON integers (validate_range call sites) and a well-typed AST",
         ensures=[
             ("ok", "r matches Ok(q) ==> parsed(jp_str@) == Some(q) && wf_segments(q.segments@)"),
             ("err", "r is Err ==> parsed(jp_str@) is None"),
         ]),
    Unit(name="QueryRef::val", file=F, impl=QR, fn="val", order=70, serves=["C01", "C02", "C03", "C12"],
         ensures=[("def", "r == self.0")]),
    Unit(name="QueryRef::path", file=F, impl=QR, fn="path", order=70, serves=["C01", "C02", "C03", "C12"],
         ensures=[("def", "r == self.1")]),
    Unit(name="QueryRef::from_pointer", file=F, impl="impl<'a, T: Queryable> From<Pointer<'a, T>> for QueryRef<'a, T>", fn="from", order=70,
         serves=["C01", "C02", "C03", "C12"], trait_method=True,
         ensures=[("from_spec", "r == QueryRef(pointer.inner, pointer.path)")]),
    Unit(name="js_path_process", calls=['JpQuery::process'], file=F, fn="js_path_process", order=71, serves=["C01", "C02", "C03", "C12", "C08"],
         requires=[("wf", "wf_segments(path.segments@)")],
         ensures=[
             ("ok", "r is Ok"),
             # the one evaluation every entry point projects (C12, first clause): a function of (query, document)
             ("eval", "r matches Ok(v) && qnodes(v@) == impl_query(*path, value)"),
             # C01: the RFC nodes with their multiplicities, for EVERY well-formed query
             ("nodes", "r matches Ok(v) && ms(qnodes(v@)) == ms(rfc_query(*path, value))"),
             # C02: in RFC order whenever no multi-selector segment receives several input nodes
             ("nodelist", "r matches Ok(v) && (segs_exact(path.segments@, true) ==> qnodes(v@) == rfc_query(*path, value))"),
         ],
         body_prefix="proof { lemma_rfc_reading(path.segments@, seq![root_node(value)], value); }",
         tail_proof="match &__r { Ok(v) => { assert(qnodes(v@) =~= impl_segs(path.segments@, seq![root_node(value)], value)); } _ => {} }",
         shapes=[("R2v", 1)],
         # Pointer -> QueryRef goes through std's From/Into contract (FromSpecImpl in helpers.rs);
         # T -> JsonPathError (format!) is the opaque E6 conversion
         text_rewrites=[("E6", "Err(v.into())", "Err(v.vf_into())", 1)]),
    Unit(name="js_path", file=F, fn="js_path", order=72, serves=["C01", "C02", "C03", "C12", "C08"],
         ensures=[
             ("parse_err", "parsed(path@) is None ==> r is Err"),
             ("eval", "parsed(path@) matches Some(q) ==> r matches Ok(v) && qnodes(v@) == impl_query(q, value)"),
             ("nodes", "parsed(path@) matches Some(q) ==> r matches Ok(v) && ms(qnodes(v@)) == ms(rfc_query(q, value))"),
             ("nodelist", "parsed(path@) matches Some(q) ==> r matches Ok(v) && (segs_exact(q.segments@, true) ==> qnodes(v@) == rfc_query(q, value))"),
         ]),
    Unit(name="js_path_vals", file=F, fn="js_path_vals", order=72, serves=["C01", "C02", "C03", "C12"],
         shapes=[("R2vv", 1)],
         ensures=[
             ("parse_err", "parsed(path@) is None ==> r is Err"),
             ("projection", "parsed(path@) matches Some(q) ==> r matches Ok(v) && v@.len() == impl_query(q, value).len() "
                            "&& forall|i: int| 0 <= i < v@.len() ==> #[trigger] v@[i] == impl_query(q, value)[i].inner"),
             ("values", "parsed(path@) matches Some(q) ==> r matches Ok(v) && (segs_exact(q.segments@, true) ==> "
                        "v@.len() == rfc_query(q, value).len() && forall|i: int| 0 <= i < v@.len() ==> #[trigger] v@[i] == rfc_query(q, value)[i].inner)"),
         ],
         closures={1: Cl(expect="r.val()", types=["QueryRef<'a, T>"], ret="(o: &'a T)", ensures=[("def", "o == r.0")])}),
    Unit(name="js_path_path", file=F, fn="js_path_path", order=72, serves=["C01", "C02", "C03", "C12"],
         shapes=[("R2vv", 1)],
         ensures=[
             ("parse_err", "parsed(path@) is None ==> r is Err"),
             ("projection", "parsed(path@) matches Some(q) ==> r matches Ok(v) && v@.len() == impl_query(q, value).len() "
                            "&& forall|i: int| 0 <= i < v@.len() ==> (#[trigger] v@[i])@ == impl_query(q, value)[i].path"),
             ("paths", "parsed(path@) matches Some(q) ==> r matches Ok(v) && (segs_exact(q.segments@, true) ==> "
                       "v@.len() == rfc_query(q, value).len() && forall|i: int| 0 <= i < v@.len() ==> (#[trigger] v@[i])@ == rfc_query(q, value)[i].path)"),
         ],
         closures={1: Cl(expect="r.path()", types=["QueryRef<T>"], ret="(o: QueryPath)", ensures=[("def", "o == r.1")])}),
]
