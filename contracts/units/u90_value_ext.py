# Units: src/query/queryable.rs — `impl Queryable for Value`: the five documented extension functions (C14)
F = "src/query/queryable.rs"
VAL = "impl Queryable for Value"

_LITS = ["in", "nin", "none_of", "any_of", "subset_of"]
_ELEM = Cl(expect="lhs.as_ref()", types=["&Value"], ret="(b: bool)",
           ensures=[("eq", "b == value_eq(*item, cow_val(*lhs))")])
_INNER = Cl(expect="vf_value_eq(lhs, rhs)", types=["&Value"], ret="(c: bool)",
            ensures=[("eq", "c == value_eq(*lhs, *rhs)")])

UNITS = [
    # The world of this unit declares serde_json::Value opaque (contracts/value_world.rs).  Rules beyond the common ones:
    #   E11  `match args.as_slice() { [a, b] => .. }` -> `match vf_slice2(&args) { Some((a, b)) => .. }` (slice pattern of length 2)
    #   E10  `x == y` on two &Value -> vf_value_eq(x, y) (serde_json's PartialEq, abstract kernel value_eq)
    #   E6v  `b.into()` (bool -> Value) -> vf_value_from_bool(b)
    Unit(name="Value::extension_custom", file=F, impl=VAL, fn="extension_custom", order=90, serves=["C14"],
         trait_method=True,
         ensures=[("def", "r == Self::ext_spec(name@, cow_vals(args@))")],
         shapes=[("R5any", 5), ("R5all", 2), ("E6v", 5)],
         text_rewrites=[("E11", "match args.as_slice() {", "match vf_slice2(&args) {", 5),
                        ("E11", "[@1, @2] =>", "Some((@1, @2)) =>", 5),
                        ("E10", "|@1| @1 == @2.as_ref()", "|@1| vf_value_eq(@1, @2.as_ref())", 2),
                        ("E10", "|@1| @2 == @1", "|@1| vf_value_eq(@2, @1)", 3)],
         body_prefix="broadcast use axiom_cow_ref; proof { "
                     + " ".join(f'reveal_strlit("{l}");' for l in _LITS) + " "
                     + " ".join(f'axiom_str_ext(name, "{l}");' for l in _LITS) + " }",
         closures={
             1: _ELEM, 2: _ELEM,
             3: Cl(expect="!vf_iter_any(rhs_arr,", types=["&Value"], ret="(b: bool)", ensures=[("none", "b == !mem_rev(rhs_arr@, *lhs)")]),
             4: _INNER,
             5: Cl(expect="vf_iter_any(rhs_arr,", types=["&Value"], ret="(b: bool)", ensures=[("some", "b == mem_rev(rhs_arr@, *lhs)")]),
             6: _INNER,
             7: Cl(expect="vf_iter_any(rhs_arr,", types=["&Value"], ret="(b: bool)", ensures=[("some", "b == mem_rev(rhs_arr@, *lhs)")]),
             8: _INNER,
         }),
]
