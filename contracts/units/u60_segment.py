# Units: src/query/segment.rs, src/query/jp_query.rs — C01, C02
F = "src/query/segment.rs"
J = "src/query/jp_query.rs"

UNITS = [
    Unit(name="process_descendant", file=F, fn="process_descendant", order=60, status="assumed", serves=["C01", "C02", "C03"],
         why_assumed="Verus rejects the recursion through a fn item (`.flat_map(process_descendant)`): cyclic dependency in its own call_ensures; "
                     "checked by the bounded back end (descendant.preorder)",
         ensures=[
             ("preorder", "nodes(r) == desc_c_fn()(nd(data))"),
             ("shape", "is_nodes(r)"),
         ]),
    Unit(name="process_selectors", file=F, fn="process_selectors", order=60, status="assumed", serves=["C01", "C02"],
         why_assumed="map-reduce over State::reduce with a cloned input: the RFC order clause is a KNOWN FINDING on this tree "
                     "(pinned by the test index_unit_keys_test), so only the multiset clause can be assumed; both clauses are evaluated by the bounded back end",
         requires=[("wf", "forall|i: int| 0 <= i < selectors@.len() ==> wf_selector(#[trigger] selectors@[i])")],
         ensures=[
             ("root", "r.root == step.root"),
             ("nodes", "is_nodes(step.data) ==> is_nodes(r.data)"),
         ]),
    Unit(name="Segment::process", calls=['Selector::process', 'State::flat_map'], file=F, impl="impl Query for Segment", fn="process", order=61,
         trait_method=True, serves=["C01", "C02"],
         attrs=["#[verifier::exec_allows_no_decreases_clause]"],
         impl_extra="""
    open spec fn process_pre<'a, T: Queryable>(&self, state: State<'a, T>) -> bool { wf_segment(*self) }
    open spec fn process_rel<'a, T: Queryable>(&self, state: State<'a, T>, r: State<'a, T>) -> bool { seg_rel(*self, state, r) }
""",
         ensures=[("rel", "self.process_rel(step, r)")],
         body_prefix="proof { match self { Segment::Descendant(b) => { lemma_descendant_containers(**b, nodes(step.data), step.root); } _ => {} } }"),
    Unit(name="Vec<Segment>::process", calls=['Segment::process'], file=J, impl="impl Query for Vec<Segment>", fn="process", order=62,
         trait_method=True, serves=["C01", "C02"],
         impl_extra="""
    open spec fn process_pre<'a, T: Queryable>(&self, state: State<'a, T>) -> bool { wf_segments(self@) }
    open spec fn process_rel<'a, T: Queryable>(&self, state: State<'a, T>, r: State<'a, T>) -> bool { segs_rel(self@, state, r) }
""",
         ensures=[("rel", "self.process_rel(state, r)")],
         shapes=[("R6", 1, "{ let __f = $F; let ghost __i = $I; let __r = vf_iter_fold($X, $I, __f); "
                           "proof { lemma_fold_segs(__f, $X@, __i, __r); } __r }")],
         closures={1: Cl(expect="segment.process(next)", types=["State<'a, T>", "&Segment"], ret="(o: State<'a, T>)",
                         requires=[("wf", "wf_segment(*segment)")],
                         ensures=[("rel", "seg_rel(*segment, next, o)")])}),
    Unit(name="JpQuery::process", calls=['Vec<Segment>::process'], file=J, impl="impl Query for JpQuery", fn="process", order=62,
         trait_method=True, serves=["C01", "C02"],
         impl_extra="""
    open spec fn process_pre<'a, T: Queryable>(&self, state: State<'a, T>) -> bool { wf_segments(self.segments@) }
    open spec fn process_rel<'a, T: Queryable>(&self, state: State<'a, T>, r: State<'a, T>) -> bool { segs_rel(self.segments@, state, r) }
""",
         ensures=[("rel", "self.process_rel(state, r)")]),
]
