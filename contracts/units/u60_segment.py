# Units: src/query/segment.rs, src/query/jp_query.rs — C01, C02
F = "src/query/segment.rs"
J = "src/query/jp_query.rs"

UNITS = [
    Unit(name="process_descendant", file=F, fn="process_descendant", order=60, serves=["C01", "C02", "C03"],
         attrs=["#[verifier::exec_allows_no_decreases_clause]"],
         # rule E9: a fn item passed as a function value is eta-expanded (`f` -> `|x| f(x)`): Verus rejects a function whose
         # contract mentions its own call_ensures; the closure carries an explicit contract instead
         text_rewrites=[("E9", ".flat_map(process_descendant)", ".flat_map(|__e| process_descendant(__e))", "+")],
         # rule E8: the collected children are bound so that "these are exactly children(node)" can be asserted
         shapes=[("R2", 1, "{ let __v = vf_enumerate_map_collect($X, $F); proof { assert(nodes(Data::Refs(__v)) =~= children(nd(data))); } __v }"),
                 ("R2v", 1, "{ let ghost __o = $X@; let __v = vf_into_map_collect($X, $F); proof { assert(nodes(Data::Refs(__v)) =~= children(nd(data))); } __v }")],
         body_prefix="proof { lemma_desc_unfold(nd(data)); } broadcast use group_nds;",
         ensures=[
             ("preorder", "nodes(r) == desc_c_fn()(nd(data))"),
             ("shape", "is_nodes(r)"),
         ],
         closures={
             1: Cl(expect="Pointer::idx(elem, data.path.clone(), i)", types=["(usize, &_)"], ret="(q: Pointer<T>)",
                   ensures=[("ptr", "nd(q) == (Node { inner: __c1_0.1, path: idx_path(data.path@, __c1_0.0 as int) })")]),
             2: Cl(expect="process_descendant(__e)", types=["Pointer<T>"], ret="(o: Data<T>)",
                   ensures=[("rec", "is_nodes(o) && nodes(o) == desc_c_fn()(nd(__e))")]),
             3: Cl(expect="Pointer::key(value, data.path.clone(), key)", types=["(&String, &_)"], ret="(q: Pointer<T>)",
                   ensures=[("ptr", "nd(q) == (Node { inner: __c3_0.1, path: key_path(data.path@, __c3_0.0@) })")]),
             4: Cl(expect="process_descendant(__e)", types=["Pointer<T>"], ret="(o: Data<T>)",
                   ensures=[("rec", "is_nodes(o) && nodes(o) == desc_c_fn()(nd(__e))")]),
         }),
    Unit(name="process_selectors", file=F, fn="process_selectors", order=60, serves=["C01", "C02"],
         calls=["Selector::process", "State::reduce"],
         requires=[("wf", "selectors@.len() > 0 && forall|i: int| 0 <= i < selectors@.len() ==> wf_selector(#[trigger] selectors@[i])")],
         ensures=[
             ("root", "r.root == step.root"),
             ("nodes", "is_nodes(step.data) ==> is_nodes(r.data)"),
             # as implemented: per selector over the whole input list (KNOWN FINDING KF-C02-union-order: not the RFC order) ...
             ("by_selector", "is_nodes(step.data) ==> nodes(r.data) == sels_by_selector(selectors@, nodes(step.data), step.root)"),
             # ... which IS the RFC order whenever the segment receives at most one input node
             ("rfc_single_input", "is_nodes(step.data) && nodes(step.data).len() <= 1 ==> nodes(r.data) == mapped(nodes(step.data), sels_fn(selectors@, step.root))"),
         ],
         shapes=[("E6", 1), ("R6r", 1, "{ let ghost __st = st0@; let __f = $F; let __r = vf_map_reduce_or($X, __f, $G, $D); "
                  "proof { lemma_selectors_from_map_reduce(__f, $G, $X@, __st, __r); "
                  "if nodes(__st.data).len() <= 1 { lemma_by_selector_single($X@, nodes(__st.data), __st.root); } } __r }")],
         body_prefix="let st0: Ghost<State<'a, T>> = Ghost(step); broadcast use axiom_root_state;",
         closures={1: Cl(expect="s.process(step.clone())", types=["&Selector"], ret="(o: State<'a, T>)",
                         requires=[("wf", "wf_selector(*s)")],
                         ensures=[("rel", "nodes_rel(st0@, o, mapped(nodes(st0@.data), sel_fn(*s, st0@.root)))")])}),
    Unit(name="Segment::process", calls=['Selector::process', 'State::flat_map'], file=F, impl="impl Query for Segment", fn="process", order=61,
         trait_method=True, serves=["C01", "C02"],
         attrs=["#[verifier::exec_allows_no_decreases_clause]"],
         impl_extra="""
    open spec fn process_pre<'a, T: Queryable>(&self, state: State<'a, T>) -> bool { wf_segment(*self) }
    open spec fn process_rel<'a, T: Queryable>(&self, state: State<'a, T>, r: State<'a, T>) -> bool { seg_rel(*self, state, r) }
""",
         ensures=[("rel", "self.process_rel(step, r)")],
         body_prefix="proof { match self { Segment::Descendant(b) => { lemma_impl_descendant_containers(**b, nodes(step.data), step.root); } _ => {} } }"),
    Unit(name="Vec<Segment>::process", calls=['Segment::process'], file=J, impl="impl Query for Vec<Segment>", fn="process", order=62,
         trait_method=True, serves=["C01", "C02"],
         impl_extra="""
    open spec fn process_pre<'a, T: Queryable>(&self, state: State<'a, T>) -> bool { wf_segments(self@) }
    open spec fn process_rel<'a, T: Queryable>(&self, state: State<'a, T>, r: State<'a, T>) -> bool { segs_rel(self@, state, r) }
""",
         ensures=[("rel", "self.process_rel(state, r)")],
         shapes=[("R6", 1, "{ let __f = $F; let ghost __i = $I; let __r = vf_iter_fold($X, $I, __f); "
                           "proof { lemma_fold_segs(__f, $X@, __i, __r); } __r }")],
         closures={1: Cl(expect="segment.process(next)", types=["State<'a, T>", "&Segment"], ret="(o: State<'a, T>)",
                         requires=[("wf", "wf_segment(*segment)")],
                         ensures=[("rel", "seg_rel(*segment, next, o)")])}),
    Unit(name="JpQuery::process", calls=['Vec<Segment>::process'], file=J, impl="impl Query for JpQuery", fn="process", order=62,
         trait_method=True, serves=["C01", "C02"],
         impl_extra="""
    open spec fn process_pre<'a, T: Queryable>(&self, state: State<'a, T>) -> bool { wf_segments(self.segments@) }
    open spec fn process_rel<'a, T: Queryable>(&self, state: State<'a, T>, r: State<'a, T>) -> bool { segs_rel(self.segments@, state, r) }
""",
         ensures=[("rel", "self.process_rel(state, r)")]),
]
