# Units: src/query/test_function.rs — C10
F = "src/query/test_function.rs"

UNITS = [
    Unit(name="TestFunction::apply", calls=['FnArg::process'], file=F, impl="impl TestFunction", fn="apply", order=50, serves=["C10"],
         requires=[("wf", "wf_fn(*self)"), ("cur", "is_cur(state)")],
         ensures=[("rel", "fn_rel(*self, state, r)")],
         body_prefix="proof { T::from_bool_roundtrip(true); T::from_bool_roundtrip(false); }"),
    Unit(name="TestFunction::process", file=F, impl="impl Query for TestFunction", fn="process", order=50,
         trait_method=True, serves=["C10"],
         impl_extra="""
    open spec fn process_pre<'a, T: Queryable>(&self, state: State<'a, T>) -> bool { wf_fn(*self) && is_cur(state) }
    open spec fn process_rel<'a, T: Queryable>(&self, state: State<'a, T>, r: State<'a, T>) -> bool { fn_rel(*self, state, r) }
""",
         ensures=[("rel", "self.process_rel(step, r)")]),
    Unit(name="FnArg::process", calls=['Literal::process', 'Test::process', 'Filter::process'], file=F, impl="impl Query for FnArg", fn="process", order=50,
         trait_method=True, serves=["C10"],
         impl_extra="""
    open spec fn process_pre<'a, T: Queryable>(&self, state: State<'a, T>) -> bool { wf_arg(*self) && is_cur(state) }
    open spec fn process_rel<'a, T: Queryable>(&self, state: State<'a, T>, r: State<'a, T>) -> bool { arg_rel(*self, state, r) }
""",
         ensures=[("rel", "self.process_rel(step, r)")],
         body_prefix="let ghost st0 = step; proof { T::from_bool_roundtrip(true); T::from_bool_roundtrip(false); }",
         # equal multisets: same node count, and a singleton nodelist has the same single node
         tail_proof="match self { FnArg::Test(t) => { match &**t { Test::RelQuery(v) => { lemma_ms_len(nodes(__r.data), rfc_segs(v@, seq![cur_node(cur_of(st0))], st0.root)); } "
                    "Test::AbsQuery(q) => { lemma_ms_len(nodes(__r.data), rfc_segs(q.segments@, seq![root_node(st0.root)], st0.root)); } _ => {} } } _ => {} }"),
    Unit(name="custom", file=F, fn="custom", order=51, status="assumed", serves=["C10"],
         why_assumed="Cow<T> arguments and the data type's extension hook (serde_json-specific set functions: C14 is not applicable)",
         requires=[("cur", "is_cur(state)")],
         ensures=[("def", "r.root == state.root && r.data == Data::<'a, T>::Value(custom_value::<T>(name@, args@, cur_of(state), state.root))")]),
    Unit(name="length", file=F, fn="length", order=51, serves=["C10"],
         shapes=[("Echars", 1)],
         ensures=[
             ("root", "r.root == state.root"),
             ("shape", "!(r.data is Refs)"),
             ("value", "!(state.data is Refs) ==> denote(r.data) == (match data_value(state.data) { Some(v) => length_of(v), None => None })"),
         ],
         closures={1: Cl(expect="State::nothing(state.root)", ret="(s: State<T>)",
                         ensures=[("def", "s.root == state.root && !(s.data is Refs) && denote(s.data) == length_of(*item)")])}),
    Unit(name="count", file=F, fn="count", order=51, serves=["C10"],
         ensures=[("def", "r.root == state.root && r.data == Data::<T>::Value(T::from_i64_spec(data_count(state.data) as i64))")],
         closures={1: Cl(expect="State::i64(count, state.root)", ret="(s: State<T>)",
                         ensures=[("def", "s.root == state.root && s.data == Data::<T>::Value(T::from_i64_spec(count))")])}),
    Unit(name="value", file=F, fn="value", order=51, serves=["C10"],
         ensures=[("def", "r.root == state.root && !(r.data is Refs) && denote(r.data) == data_value(state.data)")]),
    Unit(name="regex", file=F, fn="regex", order=51, status="assumed", serves=["C10"],
         why_assumed="regex crate and String building (prepare_regex): engine trusted; anchoring checked by the bounded back end (regex.anchoring)",
         requires=[("singular", "!(lhs.data is Refs) && !(rhs.data is Refs)")],
         ensures=[("def", "r.root == lhs.root && r.data == Data::<'a, T>::Value(T::from_bool_spec("
                         "match (str_of(denote(lhs.data)), str_of(denote(rhs.data))) { (Some(s), Some(p)) => regex_match(s, p, substr), _ => false }))")]),
]
