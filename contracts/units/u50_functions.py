# Units: src/query/test_function.rs — C10
F = "src/query/test_function.rs"

UNITS = [
    Unit(name="TestFunction::apply", calls=['FnArg::process'], file=F, impl="impl TestFunction", fn="apply", order=50, serves=["C10", "C14"],
         requires=[("wf", "wf_fn(*self)"), ("cur", "is_cur(state)")],
         ensures=[("rel", "fn_rel(*self, state, r)")],
         body_prefix="proof { T::from_bool_roundtrip(true); T::from_bool_roundtrip(false); }"),
    Unit(name="TestFunction::process", file=F, impl="impl Query for TestFunction", fn="process", order=50,
         trait_method=True, serves=["C10", "C14"],
         impl_extra="""
    open spec fn process_pre<'a, T: Queryable>(&self, state: State<'a, T>) -> bool { wf_fn(*self) && is_cur(state) }
    open spec fn process_rel<'a, T: Queryable>(&self, state: State<'a, T>, r: State<'a, T>) -> bool { fn_rel(*self, state, r) }
""",
         ensures=[("rel", "self.process_rel(step, r)")]),
    Unit(name="FnArg::process", calls=['Literal::process', 'Test::process', 'Filter::process'], file=F, impl="impl Query for FnArg", fn="process", order=50,
         trait_method=True, serves=["C10"],
         impl_extra="""
    open spec fn process_pre<'a, T: Queryable>(&self, state: State<'a, T>) -> bool { wf_arg(*self) && is_cur(state) }
    open spec fn process_rel<'a, T: Queryable>(&self, state: State<'a, T>, r: State<'a, T>) -> bool { arg_rel(*self, state, r) }
""",
         ensures=[("rel", "self.process_rel(step, r)")],
         body_prefix="let ghost st0 = step; proof { T::from_bool_roundtrip(true); T::from_bool_roundtrip(false); }",
         # equal multisets: same node count, and a singleton nodelist has the same single node
         tail_proof="match self { FnArg::Test(t) => { match &**t { Test::RelQuery(v) => { lemma_ms_len(nodes(__r.data), rfc_segs(v@, seq![cur_node(cur_of(st0))], st0.root)); } "
                    "Test::AbsQuery(q) => { lemma_ms_len(nodes(__r.data), rfc_segs(q.segments@, seq![root_node(st0.root)], st0.root)); } _ => {} } } _ => {} }"),
    Unit(name="custom", calls=['FnArg::process'], file=F, fn="custom", order=51, serves=["C10", "C14"],
         # argument evaluation and hand-over to the data type's extension hook (C14): every argument is evaluated on the current
         # node, a value is handed over owned, a node borrowed, nothing not at all — in written order
         requires=[("cur", "is_cur(state)"),
                   ("wf", "forall|i: int| 0 <= i < args@.len() ==> wf_arg(#[trigger] args@[i]) && arg_plain(args@[i])")],
         ensures=[("def", "r.root == state.root && r.data == Data::<'a, T>::Value(custom_value::<T>(name@, args@, cur_of(state), state.root))")],
         shapes=[("R7", 1, "{ let __f = $F; let __g = $G; let __r = vf_ref_map_flat_map_collect($X, __f, __g); proof { let __h = |i: int| if 0 <= i < args0@.len() { opt_seq(arg_value(arg_denote(args0@[i], cur_of(st0@), st0@.root))) } else { Seq::<T>::empty() }; assert forall|i: int, b: State<'a, T>, o: Vec<Cow<'a, T>>| 0 <= i < args0@.len() && #[trigger] __f.ensures((&args0@[i],), b) && #[trigger] __g.ensures((b,), o) implies cow_vals(o@) == __h(i) by { assert(arg_rel(args0@[i], st0@, b)); assert(cow_vals(o@) =~= data_vals(b.data)); assert(data_vals(b.data) =~= opt_seq(data_value(b.data))); } assert(cow_vals(__r@) == concat(Seq::new(args0@.len(), __h))); } __r }"), ("R2v", 1)],
         body_prefix="let st0: Ghost<State<'a, T>> = Ghost(state); let ghost args0 = args;",
         closures={
             1: Cl(expect=".process(state.clone())", types=["&FnArg"], ret="(o: State<'a, T>)",
                   requires=[("pre", "wf_arg(*v) && is_cur(st0@)")],
                   ensures=[("rel", "arg_rel(*v, st0@, o)")]),
             2: Cl(expect="vec![Cow::Owned(v)]", types=["State<'a, T>"], ret="(o: Vec<Cow<'a, T>>)",
                   ensures=[("vals", "cow_vals(o@) =~= data_vals(v.data)")]),
             3: Cl(expect="Cow::Borrowed(v.inner)", types=["Pointer<'a, T>"], ret="(c: Cow<'a, T>)",
                   ensures=[("val", "cow_val(c) == *v.inner")]),
         }),
    Unit(name="length", file=F, fn="length", order=51, serves=["C10"],
         shapes=[("Echars", 1)],
         ensures=[
             ("root", "r.root == state.root"),
             ("shape", "!(r.data is Refs)"),
             ("value", "!(state.data is Refs) ==> denote(r.data) == (match data_value(state.data) { Some(v) => length_of(v), None => None })"),
         ],
         closures={1: Cl(expect="State::nothing(state.root)", ret="(s: State<T>)",
                         ensures=[("def", "s.root == state.root && !(s.data is Refs) && denote(s.data) == length_of(*item)")])}),
    Unit(name="count", file=F, fn="count", order=51, serves=["C10"],
         ensures=[("def", "r.root == state.root && r.data == Data::<T>::Value(T::from_i64_spec(data_count(state.data) as i64))")],
         closures={1: Cl(expect="State::i64(count, state.root)", ret="(s: State<T>)",
                         ensures=[("def", "s.root == state.root && s.data == Data::<T>::Value(T::from_i64_spec(count))")])}),
    Unit(name="value", file=F, fn="value", order=51, serves=["C10"],
         ensures=[("def", "r.root == state.root && !(r.data is Refs) && denote(r.data) == data_value(state.data)")]),
    Unit(name="prepare_regex", file=F, fn="prepare_regex", order=51, status="assumed", serves=["C10"],
         why_assumed="format! / str::contains / str::replace — no string reasoning in Verus; the anchoring of match (`^(?:p)$`) and the pattern text are checked by the bounded back end (regex.match, regex.search)",
         ensures=[("def", "r@ == prepared_pattern(pattern@, substring)")]),
    # the regex crate is an opaque dependency (contracts/helpers.rs: Regex::new / is_match / find assumed over uninterpreted kernels); what is
    # proved: which operand is the subject and which the pattern, non-strings and nothing -> false, an invalid pattern -> false, search = find,
    # match = is_match of the prepared pattern
    Unit(name="regex", calls=["prepare_regex", "State::bool"], file=F, fn="regex", order=51, serves=["C10"],
         # (both operands are evaluated from the same state: which of the two roots the result carries is immaterial)
         requires=[("singular", "!(lhs.data is Refs) && !(rhs.data is Refs)"), ("same_root", "lhs.root == rhs.root")],
         ensures=[("def", "r.root == lhs.root && r.data == Data::<'a, T>::Value(T::from_bool_spec("
                         "match (str_of(denote(lhs.data)), str_of(denote(rhs.data))) { (Some(s), Some(p)) => regex_match(s, p, substr), _ => false }))")],
         body_prefix="let ghost root0 = lhs.root;",
         closures={
             1: Cl(expect="State::bool(b, lhs.root)", types=["bool"], ret="(o: State<'a, T>)",
                   ensures=[("def", "o.root == root0 && o.data == Data::<'a, T>::Value(T::from_bool_spec(b))")]),
             2: Cl(expect="r.is_match(v)", ret="(b: bool)",
                   ensures=[("def", "b == (if substr { re_find(r.pattern(), v@) } else { re_is_match(r.pattern(), v@) })")]),
             3: Cl(expect="inner.as_str()", ret="(o: Option<String>)",
                   ensures=[("def", "match (o, str_of(denote(s.data))) { (Some(x), Some(y)) => x@ == y, (None, None) => true, _ => false }")]),
             4: Cl(expect="s.to_string()", types=["&str"], ret="(x: String)", ensures=[("copy", "x@ == s@")]),
             5: Cl(expect="s.to_string()", types=["&str"], ret="(x: String)", ensures=[("copy", "x@ == s@")]),
             6: Cl(expect="to_state(regex(", types=["Regex"], ret="(o: State<'a, T>)",
                   ensures=[("def", "o.root == root0 && o.data == Data::<'a, T>::Value(T::from_bool_spec("
                                    "if substr { re_find(re.pattern(), lhs@) } else { re_is_match(re.pattern(), lhs@) }))")]),
         }),
]
