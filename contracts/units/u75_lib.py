# Units: the public entry points of src/lib.rs (trait JsonPath, default methods) — C01, C03 (and the expressible clause of C12)
L = "src/lib.rs"
T = "pub trait JsonPath: Queryable"

UNITS = [
    Unit(name="JsonPath::query_with_path", file=L, impl=T, fn="query_with_path", order=75, serves=["C01", "C02", "C03", "C12"],
         text_rewrites=[("E5m", "query::js_path(", "js_path(", 1)],
         ensures=[
             ("parse_err", "parsed(path@) is None ==> r is Err"),
             ("eval", "parsed(path@) matches Some(q) ==> r matches Ok(v) && qnodes(v@) == impl_query(q, self)"),
             ("nodes", "parsed(path@) matches Some(q) ==> r matches Ok(v) && ms(qnodes(v@)) == ms(rfc_query(q, self))"),
             ("nodelist", "parsed(path@) matches Some(q) ==> r matches Ok(v) && (segs_exact(q.segments@, true) ==> qnodes(v@) == rfc_query(q, self))"),
         ]),
    Unit(name="JsonPath::query_only_path", file=L, impl=T, fn="query_only_path", order=75, serves=["C01", "C02", "C03", "C12"],
         text_rewrites=[("E5m", "query::js_path_path(", "js_path_path(", 1)],
         ensures=[
             ("parse_err", "parsed(path@) is None ==> r is Err"),
             ("projection", "parsed(path@) matches Some(q) ==> r matches Ok(v) && v@.len() == impl_query(q, self).len() "
                            "&& forall|i: int| 0 <= i < v@.len() ==> (#[trigger] v@[i])@ == impl_query(q, self)[i].path"),
             ("paths", "parsed(path@) matches Some(q) ==> r matches Ok(v) && (segs_exact(q.segments@, true) ==> "
                       "v@.len() == rfc_query(q, self).len() && forall|i: int| 0 <= i < v@.len() ==> (#[trigger] v@[i])@ == rfc_query(q, self)[i].path)"),
         ]),
    Unit(name="JsonPath::query", file=L, impl=T, fn="query", order=75, serves=["C01", "C02", "C03", "C12"],
         text_rewrites=[("E5m", "query::js_path_vals(", "js_path_vals(", 1)],
         ensures=[
             ("parse_err", "parsed(path@) is None ==> r is Err"),
             ("projection", "parsed(path@) matches Some(q) ==> r matches Ok(v) && v@.len() == impl_query(q, self).len() "
                            "&& forall|i: int| 0 <= i < v@.len() ==> #[trigger] v@[i] == impl_query(q, self)[i].inner"),
             ("values", "parsed(path@) matches Some(q) ==> r matches Ok(v) && (segs_exact(q.segments@, true) ==> "
                        "v@.len() == rfc_query(q, self).len() && forall|i: int| 0 <= i < v@.len() ==> #[trigger] v@[i] == rfc_query(q, self)[i].inner)"),
         ]),
]
