# Units: src/query/comparison.rs, Comparison::vals (src/parser/model.rs) — C04
F = "src/query/comparison.rs"
NOT_REFS = "!(lhs.data is Refs) && !(rhs.data is Refs)"

UNITS = [
    Unit(name="Comparison::vals", file="src/parser/model.rs", impl="impl Comparison", fn="vals", order=40, serves=["C04"],
         ensures=[("def", "*r.0 == cmp_lhs(*self) && *r.1 == cmp_rhs(*self)")]),
    # not reachable from a well-formed query (`eq` requires singular operands); proved all the same, so that no caller has to trust it
    Unit(name="eq_arrays", file=F, fn="eq_arrays", order=39, serves=["C04", "C08"], calls=["eq_json"],
         ensures=[("def", "r == (lhs@.len() == rhs@.len() && forall|i: int| 0 <= i < lhs@.len() ==> json_eq(#[trigger] lhs@[i], *rhs@[i]))")],
         shapes=[("Rzi", 1, "{ let __z = vf_zip_all($X, $Y, $P); proof { if $X@.len() == $Y@.len() { "
                            "assert(__z == (forall|i: int| 0 <= i < $X@.len() ==> json_eq(#[trigger] $X@[i], *$Y@[i]))); } } __z }")],
         closures={1: Cl(expect="eq_json(a, *b)", types=["(&T, &&T)"], ret="(e: bool)",
                         ensures=[("elem", "e == json_eq(*__c1_0.0, **__c1_0.1)")])}),
    Unit(name="eq_ref_to_array", file=F, fn="eq_ref_to_array", order=40, serves=["C04", "C08"], ret_name="res", calls=["eq_arrays"],
         ensures=[("def", "res == match r.inner.as_array_spec() { Some(a) => a@.len() == rhs@.len() && forall|i: int| 0 <= i < a@.len() ==> json_eq(#[trigger] a@[i], *rhs@[i].inner), None => false }")],
         shapes=[("R2i", 1, "vf_iter_map_collect($X, $F)")],
         closures={1: Cl(expect="eq_arrays(array", types=["&Vec<T>"], ret="(e: bool)",
                         ensures=[("arr", "e == (array@.len() == rhs@.len() && forall|i: int| 0 <= i < array@.len() ==> json_eq(#[trigger] array@[i], *rhs@[i].inner))")]),
                   2: Cl(expect="p.inner", types=["&Pointer<T>"], ret="(o: &T)",
                         ensures=[("inner", "o == p.inner")])}),
    Unit(name="eq", file=F, fn="eq", order=40, serves=["C04", "C15"],
         requires=[("singular", "!(lhs_state.data is Refs) && !(rhs_state.data is Refs)")],
         ensures=[("def", "r == val_eq(denote(lhs_state.data), denote(rhs_state.data))")],
         # the (Ref, Value) arm calls eq_json with swapped operands: equality is symmetric
         body_prefix="let ghost l0 = lhs_state; let ghost r0 = rhs_state; proof { match (l0.data, r0.data) { (Data::Ref(p), Data::Value(v)) => { axiom_json_eq_symmetric(v, *p.inner); } _ => {} } }",
         text_rewrites=[("E10", "(Data::Refs(@1), Data::Refs(@2)) => @1 == @2,", "(Data::Refs(@1), Data::Refs(@2)) => vf_ptr_vecs_eq(&@1, &@2),", 1)]),
    Unit(name="cmp_numbers", file=F, fn="cmp_numbers", order=40, status="assumed", serves=["C04", "C15"],
         why_assumed="f64 arithmetic and casts: Verus has no float reasoning; the numeric kernel is decided by the Kani harnesses "
                     "(loop-free, all i64 x all finite f64) through eq / lt",
         ensures=[("def", "r == num_cmp(*lhs, *rhs)")]),
    Unit(name="lt", file=F, fn="lt", order=40, serves=["C04", "C15"],
         requires=[("singular", NOT_REFS)],
         ensures=[("def", "r == val_lt(denote(lhs.data), denote(rhs.data))")],
         text_rewrites=[("E10", "@1 < @2", "vf_str_lt(@1, @2)", 1)],
         closures={1: Cl(expect="cmp_numbers(lhs, rhs)", ret="(b: bool)",
                         ensures=[("def", "b == json_lt(*lhs, *rhs)")])}),
    Unit(name="eq_json", file=F, fn="eq_json", order=40, serves=["C04", "C15"], ret_name="res",
         attrs=["#[verifier::exec_allows_no_decreases_clause]"],
         ensures=[("def", "res == json_eq(*lhs, *rhs)")],
         body_prefix="proof { axiom_json_eq_def(*lhs, *rhs); }",
         # E10: `==` on references forwards to the referents (std's `impl PartialEq<&B> for &A`); the last-resort `lhs == rhs`
         # is the data type's own PartialEq (abstract: scalar_eq)
         text_rewrites=[("E10", "@1 == @2 &&", "**@1 == **@2 &&", 1),
                        ("E10", "(None, None) => @1 == @2,", "(None, None) => vf_scalar_eq(@1, @2),", 1)],
         # rule E8: the helper results are bound so that "this is the quantified RFC statement" can be asserted
         shapes=[("Rz", 1, "{ let __z = vf_zip_all($X, $Y, $P); proof { if $X@.len() == $Y@.len() { "
                           "assert(__z == (forall|i: int| 0 <= i < $X@.len() ==> json_eq(#[trigger] $X@[i], $Y@[i]))); } } __z }"),
                 ("R5all", 1, "{ let __a = vf_iter_all(&$X, $P); proof {\n"
                              "if __a { assert forall|i: int| 0 <= i < $X@.len() implies #[trigger] member_match($X@, r@, i) by {\n let e = $X@[i];\n"
                              "assert(exists|j: int| 0 <= j < r@.len() && e.0@ == (#[trigger] r@[j]).0@ && json_eq(*e.1, *r@[j].1));\n"
                              "let j0 = choose|j: int| 0 <= j < r@.len() && e.0@ == (#[trigger] r@[j]).0@ && json_eq(*e.1, *r@[j].1);\n"
                              "assert(0 <= j0 < r@.len() && $X@[i].0@ == r@[j0].0@ && json_eq(*$X@[i].1, *r@[j0].1)); } }\n"
                              "if !__a { let i1 = choose|i: int| 0 <= i < $X@.len() && !(exists|j: int| 0 <= j < r@.len() && (#[trigger] $X@[i]).0@ == (#[trigger] r@[j]).0@ && json_eq(*$X@[i].1, *r@[j].1));\n"
                              "assert(!member_match($X@, r@, i1)); }\n"
                              "assert(__a == (forall|i: int| 0 <= i < $X@.len() ==> #[trigger] member_match($X@, r@, i))); } __a }"),
                 ("R5any", 1, "vf_iter_any(&$X, $P)")],
         closures={
             1: Cl(expect="eq_json(a, b)", types=["(&T, &T)"], ret="(e: bool)",
                   ensures=[("elem", "e == json_eq(*__c1_0.0, *__c1_0.1)")]),
             2: Cl(expect="vf_iter_any", types=["&(&String, &T)"], ret="(e: bool)",
                   ensures=[("member", "e == (exists|j: int| 0 <= j < r@.len() && __c2_0.0@ == (#[trigger] r@[j]).0@ && json_eq(*__c2_0.1, *r@[j].1))")]),
             3: Cl(expect="eq_json(*a, *b)", types=["&(&String, &T)"], ret="(e: bool)",
                   ensures=[("pair", "e == (k@ == __c3_0.0@ && json_eq(**a, *__c3_0.1))")]),
         }),
    Unit(name="Comparison::process", calls=['Comparable::process'], file=F, impl="impl Query for Comparison", fn="process", order=41,
         trait_method=True, serves=["C04"],
         impl_extra="""
    open spec fn process_pre<'a, T: Queryable>(&self, state: State<'a, T>) -> bool { wf_cmp(*self) && is_cur(state) }
    open spec fn process_rel<'a, T: Queryable>(&self, state: State<'a, T>, r: State<'a, T>) -> bool {
        bool_state(state, r, cmp_truth(*self, cur_of(state), state.root))
    }
""",
         ensures=[("rel", "self.process_rel(state, r)")]),
]
