# Units: src/query/comparison.rs, Comparison::vals (src/parser/model.rs) — C04
F = "src/query/comparison.rs"
NOT_REFS = "!(lhs.data is Refs) && !(rhs.data is Refs)"

UNITS = [
    Unit(name="Comparison::vals", file="src/parser/model.rs", impl="impl Comparison", fn="vals", order=40, serves=["C04"],
         ensures=[("def", "*r.0 == cmp_lhs(*self) && *r.1 == cmp_rhs(*self)")]),
    Unit(name="eq", file=F, fn="eq", order=40, status="assumed", serves=["C04", "C15"],
         why_assumed="f64 arithmetic, T: PartialEq and Vec<Pointer> equality: decided by the Kani harness (scalar kernel, full i64/f64 domain) and the bounded back end (structured values)",
         requires=[("singular", "!(lhs_state.data is Refs) && !(rhs_state.data is Refs)")],
         ensures=[("def", "r == val_eq(denote(lhs_state.data), denote(rhs_state.data))")]),
    Unit(name="lt", file=F, fn="lt", order=40, status="assumed", serves=["C04", "C15"],
         why_assumed="f64 arithmetic and str ordering: decided by the Kani harness (scalar kernel, full i64/f64 domain) and the bounded back end (strings)",
         requires=[("singular", NOT_REFS)],
         ensures=[("def", "r == val_lt(denote(lhs.data), denote(rhs.data))")]),
    Unit(name="Comparison::process", calls=['Comparable::process'], file=F, impl="impl Query for Comparison", fn="process", order=41,
         trait_method=True, serves=["C04"],
         impl_extra="""
    open spec fn process_pre<'a, T: Queryable>(&self, state: State<'a, T>) -> bool { wf_cmp(*self) && is_cur(state) }
    open spec fn process_rel<'a, T: Queryable>(&self, state: State<'a, T>, r: State<'a, T>) -> bool {
        bool_state(state, r, cmp_truth(*self, cur_of(state), state.root))
    }
""",
         ensures=[("rel", "self.process_rel(state, r)")]),
]
