# Unit: impl Query for Selector (src/query/selector.rs:7-19) — C01, C02
F = "src/query/selector.rs"
NODE_CL = "(o: Data<'a, T>)"

UNITS = [
    Unit(name="Selector::process", calls=['State::flat_map'], file=F, impl="impl Query for Selector", fn="process", order=20,
         trait_method=True, serves=["C01", "C02"],
         impl_extra="""
    open spec fn process_pre<'a, T: Queryable>(&self, state: State<'a, T>) -> bool { wf_selector(*self) }
    open spec fn process_rel<'a, T: Queryable>(&self, state: State<'a, T>, r: State<'a, T>) -> bool {
        nodes_rel(state, r, mapped(nodes(state.data), sel_fn(*self, state.root)))
        // a name or index selector maps one node to at most one node (singular queries, RFC 9535 2.3.5.1)
        && ((*self is Name || *self is Index) && one_or_none(state.data) ==> one_or_none(r.data))
    }
""",
         # the contract of a trait method is the trait's: requires process_pre, ensures process_rel
         ensures=[("rel", "self.process_rel(step, r)")],
         closures={
             1: Cl(expect="process_key(d, key)", types=["Pointer<'a, T>"], ret=NODE_CL,
                   ensures=[("nodes", "(o is Ref || o is Nothing) && nodes(o) == sel_name(nd(d), key@)")]),
             2: Cl(expect="process_index(d, idx)", types=["Pointer<'a, T>"], ret=NODE_CL,
                   requires=[("wf", "ijson(*idx as int)")],
                   ensures=[("nodes", "(o is Ref || o is Nothing) && nodes(o) == sel_index(nd(d), *idx)")]),
             3: Cl(expect="process_slice(d, start, end, sl_step)", types=["Pointer<'a, T>"], ret=NODE_CL,
                   requires=[("wf", "opt_ijson(*start) && opt_ijson(*end) && opt_ijson(*sl_step)")],
                   ensures=[("nodes", "is_nodes(o) && nodes(o) == sel_slice(nd(d), *start, *end, *sl_step)")]),
         }),
]
