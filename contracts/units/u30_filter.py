# Units: src/query/filter.rs — C05, C01, C02
F = "src/query/filter.rs"
IMPLQ = "impl Query for Filter"
IMPL = "impl Filter"
AS_BOOL = Cl(expect="v.as_bool()", types=["T"], ret="(ob: Option<bool>)", ensures=[("def", "ob == v.as_bool_spec()")])

UNITS = [
    Unit(name="Filter::process", calls=['State::flat_map'], file=F, impl=IMPLQ, fn="process", order=30, trait_method=True, serves=["C05"],
         impl_extra="""
    // filter mode: the state carries `@`; the result is the truth value of the logical expression
    open spec fn process_pre<'a, T: Queryable>(&self, state: State<'a, T>) -> bool { wf_filter(*self) && is_cur(state) }
    open spec fn process_rel<'a, T: Queryable>(&self, state: State<'a, T>, r: State<'a, T>) -> bool {
        bool_state(state, r, filter_truth(*self, cur_of(state), state.root))
    }
""",
         ensures=[("rel", "self.process_rel(state, r)")],
         shapes=[("E6", 1)],
         body_prefix="proof { T::from_bool_roundtrip(true); T::from_bool_roundtrip(false); }",
         closures={1: Cl(expect="p.is_internal()", types=["Pointer<'a, T>"], ret="(o: Data<'a, T>)",
                         requires=[("wf", "wf_filter(*self)")],
                         ensures=[("cur", "p.path@.len() == 0 ==> o == Data::<'a, T>::Value(T::from_bool_spec(filter_truth(*self, p.inner, root)))")])}),
    Unit(name="Filter::process_selector", calls=['State::flat_map'], file=F, impl=IMPL, fn="process_selector", order=31, serves=["C05", "C01", "C02"],
         requires=[("wf", "wf_filter(*self)")],
         ensures=[
             ("root", "r.root == state.root"),
             ("nodes", "is_nodes(state.data) ==> is_nodes(r.data)"),
             ("select", "forall|h: spec_fn(Node<'a, T>) -> Seq<Node<'a, T>>| is_nodes(state.data) && "
                        "(forall|n: Node<'a, T>| #[trigger] h(n) == sel_filter(*self, n, state.root)) ==> nodes(r.data) == #[trigger] mapped(nodes(state.data), h)"),
         ],
         closures={1: Cl(expect="self.select_children(p, root)", types=["Pointer<'a, T>"], ret="(o: Data<'a, T>)",
                         requires=[("wf", "wf_filter(*self)")],
                         ensures=[("nodes", "is_nodes(o) && nodes(o) == sel_filter(*self, nd(p), root)")])}),
    Unit(name="Filter::select_children", file=F, impl=IMPL, fn="select_children", order=31, serves=["C05", "C01", "C02", "C03"],
         requires=[("wf", "wf_filter(*self)")],
         ensures=[
             ("select", "nodes(r) == sel_filter(*self, nd(p), root)"),
             ("shape", "r is Refs || r is Nothing"),
         ],
         shapes=[("R4", 1), ("R4v", 1)],
         body_prefix="let ghost n0 = nd(p);",
         closures={
             1: Cl(expect="self.filter_item(Pointer::empty(*item), root)", types=["&(usize, &'a T)"], ret="(b: bool)",
                   requires=[("wf", "wf_filter(*self)")],
                   ensures=[("truth", "b == filter_truth(*self, __c1_0.1, root)")]),
             2: Cl(expect="Pointer::idx(item, p.path.clone(), idx)", types=["(usize, &'a T)"], ret="(q: Pointer<'a, T>)",
                   ensures=[("ptr", "nd(q) == (Node { inner: __c2_0.1, path: idx_path(p.path@, __c2_0.0 as int) })")]),
             3: Cl(expect="self.filter_item(Pointer::empty(*item), root)", types=["&(&'a String, &'a T)"], ret="(b: bool)",
                   requires=[("wf", "wf_filter(*self)")],
                   ensures=[("truth", "b == filter_truth(*self, __c3_0.1, root)")]),
             4: Cl(expect="Pointer::key(item, p.path.clone(), key)", types=["(&'a String, &'a T)"], ret="(q: Pointer<'a, T>)",
                   ensures=[("ptr", "nd(q) == (Node { inner: __c4_0.1, path: key_path(p.path@, __c4_0.0@) })")]),
         }),
    Unit(name="Filter::process_elem", calls=['Filter::process', 'FilterAtom::process'], file=F, impl=IMPL, fn="process_elem", order=32, serves=["C05"],
         attrs=["#[verifier::exec_allows_no_decreases_clause]"],
         requires=[("wf", "wf_filter(*self)"), ("cur", "is_cur(state)")],
         ensures=[("truth", "truth_state(state, r, filter_truth(*self, cur_of(state), state.root))")],
         shapes=[("R5any", 1), ("R5all", 1)],
         body_prefix="let st0: Ghost<State<'a, T>> = Ghost(state); proof { T::from_bool_roundtrip(true); T::from_bool_roundtrip(false); }",
         closures={
             1: Cl(expect=".process(state.clone())", ret="(b: bool)",
                   requires=[("wf", "wf_filter(*filter)"), ("cur", "is_cur(st0@)")],
                   ensures=[("truth", "b == filter_truth(*filter, cur_of(st0@), st0@.root)")],
                   pre_body="proof { T::from_bool_roundtrip(filter_truth(*filter, cur_of(st0@), st0@.root)); }"),
             2: AS_BOOL,
         }),
    Unit(name="Filter::filter_item", file=F, impl=IMPL, fn="filter_item", order=32, serves=["C05"],
         ret_name="b",
         requires=[("wf", "wf_filter(*self)"), ("cur", "item.path@.len() == 0")],
         ensures=[("truth", "b == filter_truth(*self, item.inner, root)")],
         body_prefix="proof { T::from_bool_roundtrip(filter_truth(*self, item.inner, root)); }",
         closures={1: AS_BOOL}),
]
