# Units: index and slice selectors (src/query/selector.rs) — C11, C08, C01, C02, C03
L62 = "0x4000_0000_0000_0000"

UNITS = [
    Unit(
        name="process_index", file="src/query/selector.rs", fn="process_index", order=10,
        serves=["C11", "C08", "C01", "C03"],
        requires=[("ijson", "ijson(*idx as int)")],
        ensures=[
            ("select", "nodes(r) == sel_index(nd(__p0), *idx)"),
            ("shape", "r is Ref || r is Nothing"),
        ],
        closures={1: Cl(
            expect="Data::new_ref(Pointer::idx(", types=["&'a Vec<T>"], ret="(d: Data<'a, T>)",
            requires=[("ijson", "ijson(*idx as int)"), ("len", f"array@.len() < {L62}")],
            ensures=[
                ("shape", "d is Ref || d is Nothing"),
                ("none", "d is Nothing <==> rfc_index(array@.len() as int, *idx as int) is None"),
                ("some", "d matches Data::Ref(p) ==> rfc_index(array@.len() as int, *idx as int) matches Some(k) "
                         "&& p.inner == &array@[k] && p.path@ == idx_path(path@, k)"),
            ])},
    ),
]

SLICE_OF = "rfc_slice(elements@.len() as int, *start, *end, *step)"
UNITS.append(Unit(
    name="process_slice", file="src/query/selector.rs", fn="process_slice", order=10,
    serves=["C11", "C08", "C01", "C02", "C03"],
    requires=[("ijson", "opt_ijson(*start) && opt_ijson(*end) && opt_ijson(*step)")],
    ensures=[
        ("select", "nodes(r) == sel_slice(nd(__p0), *start, *end, *step)"),
        ("shape", "r is Refs || r is Nothing"),
        ("nonarray", "__p0.inner.as_array_spec() is None ==> r is Nothing"),
    ],
    body_prefix="broadcast use axiom_std_min_i64, axiom_std_max_i64;",
    shapes=[("R2v", 1)],
    closures={
        # extract_elems: the RFC 9535 2.3.4.2.2 index sequence
        1: Cl(expect="let len = elements.len() as i64;", ret="(res: Vec<(&'a T, usize)>)",
              requires=[("ijson", "opt_ijson(*start) && opt_ijson(*end) && opt_ijson(*step)"),
                        ("len", f"elements@.len() < {L62}")],
              ensures=[
                  ("count", f"res@.len() == {SLICE_OF}.len()"),
                  ("indices", f"forall|k: int| 0 <= k < res@.len() ==> (#[trigger] res@[k]).1 as int == {SLICE_OF}[k]"),
                  ("inbounds", "forall|k: int| 0 <= k < res@.len() ==> 0 <= (#[trigger] res@[k]).1 < elements@.len()"),
                  ("elems", "forall|k: int| 0 <= k < res@.len() ==> (#[trigger] res@[k]).0 == &elements@[res@[k].1 as int]"),
              ]),
        # norm
        2: Cl(expect="len + i", ret="(n: i64)",
              requires=[("range", f"-{L62} - 1 <= i <= {L62}"), ("len", f"0 <= len < {L62}")],
              ensures=[("def", "n == norm_s(i as int, len as int)")]),
        # elems_to_step
        3: Cl(expect="Data::new_refs", ret="(d: Data<'a, T>)",
              ensures=[
                  ("refs", "d matches Data::Refs(ps) && ps@.len() == v@.len()"),
                  ("each", "d matches Data::Refs(ps) && forall|k: int| 0 <= k < v@.len() ==> "
                           "(#[trigger] ps@[k]).inner == v@[k].0 && ps@[k].path@ == idx_path(path@, v@[k].1 as int)"),
              ]),
        4: Cl(expect="Pointer::idx(elem, path.clone(), i)", types=["(&'a T, usize)"], ret="(q: Pointer<'a, T>)",
              ensures=[("ptr", "q.inner == __c4_0.0 && q.path@ == idx_path(path@, __c4_0.1 as int)")]),
    },
    loops={
        1: Loop(invariant=[
            ("step", "e > 0 && ijson(e as int)"),
            ("len", f"len == elements@.len() && 0 <= len < {L62}"),
            ("bounds", "0 <= lower <= len && 0 <= upper <= len"),
            ("idx", "lower <= idx && (idx < upper + e || idx == lower)"),
            ("seq", "rfc_seq_up(lower as int, upper as int, e as int) == "
                    "res@.map_values(|p: (&T, usize)| p.1 as int) + rfc_seq_up(idx as int, upper as int, e as int)"),
            ("elems", "forall|k: int| 0 <= k < res@.len() ==> 0 <= (#[trigger] res@[k]).1 < elements@.len() "
                      "&& res@[k].0 == &elements@[res@[k].1 as int]"),
        ], decreases="upper + e - idx"),
        2: Loop(invariant=[
            ("step", "e < 0 && ijson(e as int)"),
            ("len", f"len == elements@.len() && 0 <= len < {L62}"),
            ("bounds", "-1 <= lower <= len - 1 && -1 <= upper <= len - 1"),
            ("idx", "idx <= upper && (lower + e < idx || idx == upper)"),
            ("seq", "rfc_seq_down(upper as int, lower as int, e as int) == "
                    "res@.map_values(|p: (&T, usize)| p.1 as int) + rfc_seq_down(idx as int, lower as int, e as int)"),
            ("elems", "forall|k: int| 0 <= k < res@.len() ==> 0 <= (#[trigger] res@[k]).1 < elements@.len() "
                      "&& res@[k].0 == &elements@[res@[k].1 as int]"),
        ], decreases="idx - lower - e"),
    },
))
