# Units: src/query/state.rs — constructors, nodelist algebra (C01, C02, C03)
PTR = "impl<'a, T: Queryable> Pointer<'a, T>"
DATA = "impl<'a, T: Queryable> Data<'a, T>"
STATE = "impl<'a, T: Queryable> State<'a, T>"
F = "src/query/state.rs"

UNITS = [
    # ---- Pointer ----
    Unit(name="Pointer::new", file=F, impl=PTR, fn="new", order=1, serves=["C01", "C03"],
         ensures=[("fields", "r.inner == inner && r.path == path")]),
    Unit(name="Pointer::idx", file=F, impl=PTR, fn="idx", order=1, status="assumed", serves=["C03"],
         why_assumed="format! — no string reasoning in Verus; text checked by the bounded back end (Pointer.text)",
         ensures=[("inner", "r.inner == inner"), ("path", "r.path@ == idx_path(path@, index as int)")]),
    Unit(name="Pointer::key", file=F, impl=PTR, fn="key", order=1, status="assumed", serves=["C03"],
         why_assumed="format!/starts_with — no string reasoning in Verus; text checked by the bounded back end (Pointer.text)",
         ensures=[("inner", "r.inner == inner"), ("path", "r.path@ == key_path(path@, key@)")]),
    Unit(name="Pointer::empty", file=F, impl=PTR, fn="empty", order=1, serves=["C05"],
         ensures=[("inner", "r.inner == inner"), ("path", "r.path@.len() == 0")]),
    Unit(name="Pointer::is_internal", file=F, impl=PTR, fn="is_internal", order=1, serves=["C05"],
         ret_name="b", ensures=[("def", "b == (self.path@.len() == 0)")]),
    # ---- Data ----
    Unit(name="Data::default", file=F, impl="impl<'a, T: Queryable> Default for Data<'a, T>", fn="default", order=2,
         serves=["C01"], ensures=[("nothing", "r == Data::<'a, T>::Nothing")]),
    Unit(name="Data::new_ref", file=F, impl=DATA, fn="new_ref", order=3, serves=["C01"],
         ensures=[("def", "r == Data::Ref(data)")]),
    Unit(name="Data::new_refs", file=F, impl=DATA, fn="new_refs", order=3, serves=["C01"],
         ensures=[("def", "r == Data::Refs(data)")]),
    Unit(name="Data::reduce", file=F, impl=DATA, fn="reduce", order=3, serves=["C02", "C01"],
         shapes=[("R1", 3)],
         body_prefix="broadcast use group_nds;",
         ensures=[
             ("concat", "is_nodes(self) && is_nodes(other) ==> is_nodes(r) && nodes(r) == nodes(self) + nodes(other)"),
             ("value", "!(is_nodes(self) && is_nodes(other)) ==> r is Nothing"),
         ]),

    Unit(name="Data::flat_map", file=F, impl=DATA, fn="flat_map", order=3, serves=["C02", "C01"],
         requires=[("total", "forall|p: Pointer<'a, T>| f.requires((p,))")],
         ensures=[
             ("mapped", "forall|h: spec_fn(Node<'a, T>) -> Seq<Node<'a, T>>| is_nodes(self) && pins(f, h) ==> nodes(r) == #[trigger] mapped(nodes(self), h)"),
             ("nodey", "is_nodes(self) && nodey(f) ==> is_nodes(r)"),
             ("value", "!is_nodes(self) ==> r is Nothing"),
             ("single", "self matches Data::Ref(p) ==> f.ensures((p,), r)"),
             ("refs", "self is Refs ==> r is Refs"),
             ("nothing", "self is Nothing ==> r is Nothing"),
         ],
         body_prefix="broadcast use group_nds, lemma_mapped_one, lemma_mapped_none, lemma_nodes_ptrs;",
         shapes=[("R3", 1)],
         closures={1: Cl(expect="match f(", types=["Pointer<'a, T>"], ret="(o: Vec<Pointer<'a, T>>)",
                         requires=[("pre", "f.requires((data,))")],
                         ensures=[("out", "exists|d: Data<'a, T>| #[trigger] f.ensures((data,), d) && o@ =~= ptrs(d)")])},
         ),

    # ---- State ----
    Unit(name="State::bool", file=F, impl=STATE, fn="bool", order=4, serves=["C05", "C04", "C10"], shapes=[("E6", 1)],
         ensures=[("def", "r.root == root && r.data == Data::<T>::Value(T::from_bool_spec(b))")]),
    Unit(name="State::i64", file=F, impl=STATE, fn="i64", order=4, serves=["C10"], shapes=[("E6", 1)],
         ensures=[("def", "r.root == root && r.data == Data::<T>::Value(T::from_i64_spec(i))")]),
    Unit(name="State::str", file=F, impl=STATE, fn="str", order=4, serves=["C10"], shapes=[("E6", 1)],
         ensures=[("def", "r.root == root && r.data == Data::<T>::Value(T::from_str_spec(v@))")]),
    Unit(name="State::shift_to_root", file=F, impl=STATE, fn="shift_to_root", order=4, serves=["C05"],
         ensures=[("root", "r.root == self.root"), ("data", "r.data matches Data::Ref(p) && nd(p) == (Node { inner: self.root, path: root_path() })")]),
    Unit(name="State::root", file=F, impl=STATE, fn="root", order=4, serves=["C01", "C03", "C05"],
         body_prefix='proof { reveal_strlit("$"); assert("$"@ =~= root_path()); }',
         ensures=[("root", "r.root == root"), ("data", "r.data matches Data::Ref(p) && nd(p) == (Node { inner: root, path: root_path() })")]),
    Unit(name="State::nothing", file=F, impl=STATE, fn="nothing", order=4, serves=["C10"],
         ensures=[("def", "r.root == root && r.data is Nothing")]),
    Unit(name="State::data", file=F, impl=STATE, fn="data", order=4, serves=["C01", "C05"],
         ensures=[("def", "r == (State { root, data })")]),
    Unit(name="State::ok_val", file=F, impl=STATE, fn="ok_val", order=4, serves=["C05"],
         ensures=[("def", "r == (match self.data { Data::Value(v) => Some(v), _ => None })")]),
    Unit(name="State::reduce", calls=['Data::reduce'], file=F, impl=STATE, fn="reduce", order=4, serves=["C02", "C01"],
         ensures=[
             ("root", "r.root == self.root"),
             ("concat", "is_nodes(self.data) && is_nodes(other.data) ==> is_nodes(r.data) && nodes(r.data) == nodes(self.data) + nodes(other.data)"),
             ("value", "!(is_nodes(self.data) && is_nodes(other.data)) ==> r.data is Nothing"),
         ]),
    Unit(name="State::flat_map", calls=['Data::flat_map'], file=F, impl=STATE, fn="flat_map", order=4, serves=["C02", "C01"],
         requires=[("total", "forall|p: Pointer<'a, T>| f.requires((p,))")],
         ensures=[
             ("root", "r.root == self.root"),
             ("mapped", "forall|h: spec_fn(Node<'a, T>) -> Seq<Node<'a, T>>| is_nodes(self.data) && pins(f, h) ==> nodes(r.data) == #[trigger] mapped(nodes(self.data), h)"),
             ("nodey", "is_nodes(self.data) && nodey(f) ==> is_nodes(r.data)"),
             ("value", "!is_nodes(self.data) ==> r.data is Nothing"),
             ("single", "self.data matches Data::Ref(p) ==> f.ensures((p,), r.data)"),
             ("nothing", "self.data is Nothing ==> r.data is Nothing"),
         ]),
]
