# Units: src/query/state.rs — constructors, nodelist algebra (C01, C02, C03)
PTR = "impl<'a, T: Queryable> Pointer<'a, T>"
DATA = "impl<'a, T: Queryable> Data<'a, T>"
STATE = "impl<'a, T: Queryable> State<'a, T>"
F = "src/query/state.rs"

UNITS = [
    # ---- Pointer ----
    Unit(name="Pointer::new", file=F, impl=PTR, fn="new", order=1, serves=["C01", "C03"],
         ensures=[("fields", "r.inner == inner && r.path == path")]),
    Unit(name="Pointer::idx", file=F, impl=PTR, fn="idx", order=1, status="assumed", serves=["C03"],
         why_assumed="format! — no string reasoning in Verus; text checked by the bounded back end (Pointer.text)",
         ensures=[("inner", "r.inner == inner"), ("path", "r.path@ == idx_path(path@, index as int)")]),
    Unit(name="Pointer::key", file=F, impl=PTR, fn="key", order=1, status="assumed", serves=["C03"],
         why_assumed="format!/starts_with — no string reasoning in Verus; text checked by the bounded back end (Pointer.text)",
         ensures=[("inner", "r.inner == inner"), ("path", "r.path@ == key_path(path@, key@)")]),
    Unit(name="Pointer::empty", file=F, impl=PTR, fn="empty", order=1, status="assumed", serves=["C05"],
         why_assumed="String::new() view — vstd has no spec for it",
         ensures=[("inner", "r.inner == inner"), ("path", "r.path@.len() == 0")]),
    Unit(name="Pointer::is_internal", file=F, impl=PTR, fn="is_internal", order=1, status="assumed", serves=["C05"],
         why_assumed="String::is_empty — vstd has no spec for it",
         ret_name="b", ensures=[("def", "b == (self.path@.len() == 0)")]),
    # ---- Data ----
    Unit(name="Data::default", file=F, impl="impl<'a, T: Queryable> Default for Data<'a, T>", fn="default", order=2,
         serves=["C01"], ensures=[("nothing", "r == Data::<'a, T>::Nothing")]),
    Unit(name="Data::new_ref", file=F, impl=DATA, fn="new_ref", order=3, serves=["C01"],
         ensures=[("def", "r == Data::Ref(data)")]),
    Unit(name="Data::new_refs", file=F, impl=DATA, fn="new_refs", order=3, serves=["C01"],
         ensures=[("def", "r == Data::Refs(data)")]),
    Unit(name="Data::reduce", file=F, impl=DATA, fn="reduce", order=3, serves=["C02", "C01"],
         shapes=[("R1", 3)],
         body_prefix="broadcast use lemma_nds_push_front, lemma_nds_concat;",
         ensures=[
             ("concat", "is_nodes(self) && is_nodes(other) ==> is_nodes(r) && nodes(r) == nodes(self) + nodes(other)"),
             ("value", "!(is_nodes(self) && is_nodes(other)) ==> r is Nothing"),
         ]),
]
