# Units: src/query/comparable.rs — C04, C05
F = "src/query/comparable.rs"
VAL_REL = "r.root == {st}.root && !(r.data is Refs) && denote(r.data) == {val}"

UNITS = [
    Unit(name="Comparable::process", calls=['Literal::process', 'TestFunction::process', 'SingularQuery::process'], file=F, impl="impl Query for Comparable", fn="process", order=42,
         trait_method=True, serves=["C04", "C10"],
         impl_extra="""
    open spec fn process_pre<'a, T: Queryable>(&self, state: State<'a, T>) -> bool { wf_comparable(*self) && is_cur(state) }
    open spec fn process_rel<'a, T: Queryable>(&self, state: State<'a, T>, r: State<'a, T>) -> bool {
        r.root == state.root && !(r.data is Refs) && denote(r.data) == comparable_val(*self, cur_of(state), state.root)
    }
""",
         ensures=[("rel", "self.process_rel(step, r)")]),
    Unit(name="Literal::process", file=F, impl="impl Query for Literal", fn="process", order=42,
         trait_method=True, serves=["C04", "C15"], shapes=[("E6", 4)],
         impl_extra="""
    open spec fn process_pre<'a, T: Queryable>(&self, state: State<'a, T>) -> bool { true }
    open spec fn process_rel<'a, T: Queryable>(&self, state: State<'a, T>, r: State<'a, T>) -> bool {
        r.root == state.root && r.data == Data::<'a, T>::Value(lit_val::<T>(*self))
    }
""",
         ensures=[("rel", "self.process_rel(state, r)")]),
    Unit(name="SingularQuery::process", calls=['Vec<SingularQuerySegment>::process'], file=F, impl="impl Query for SingularQuery", fn="process", order=43,
         trait_method=True, serves=["C04"],
         impl_extra="""
    open spec fn process_pre<'a, T: Queryable>(&self, state: State<'a, T>) -> bool { wf_sq(*self) && is_cur(state) }
    open spec fn process_rel<'a, T: Queryable>(&self, state: State<'a, T>, r: State<'a, T>) -> bool {
        r.root == state.root && (r.data is Ref || r.data is Nothing) && denote(r.data) == sq_val(*self, cur_of(state), state.root)
    }
""",
         ensures=[("rel", "self.process_rel(step, r)")],
         body_prefix="proof { lemma_cur_nodes(step); }"),
    Unit(name="SingularQuerySegment::process", calls=['State::flat_map'], file=F, impl="impl Query for SingularQuerySegment", fn="process", order=43,
         trait_method=True, serves=["C04", "C08"],
         impl_extra="""
    open spec fn process_pre<'a, T: Queryable>(&self, state: State<'a, T>) -> bool { *self matches SingularQuerySegment::Index(k) ==> ijson(k as int) }
    open spec fn process_rel<'a, T: Queryable>(&self, state: State<'a, T>, r: State<'a, T>) -> bool {
        sqseg_rel(*self, state, r)
    }
""",
         ensures=[("rel", "self.process_rel(step, r)")],
         closures={
             1: Cl(expect="process_index(d, idx)", types=["Pointer<'a, T>"], ret="(o: Data<'a, T>)",
                   requires=[("wf", "ijson(*idx as int)")],
                   ensures=[("nodes", "(o is Ref || o is Nothing) && nodes(o) == sel_index(nd(d), *idx)")]),
             2: Cl(expect="process_key(d, key)", types=["Pointer<'a, T>"], ret="(o: Data<'a, T>)",
                   ensures=[("nodes", "(o is Ref || o is Nothing) && nodes(o) == sel_name(nd(d), key@)")]),
         }),
    Unit(name="Vec<SingularQuerySegment>::process", calls=['SingularQuerySegment::process'], file=F, impl="impl Query for Vec<SingularQuerySegment>", fn="process", order=43,
         trait_method=True, serves=["C04"],
         impl_extra="""
    open spec fn process_pre<'a, T: Queryable>(&self, state: State<'a, T>) -> bool { wf_sq_segs(self@) }
    open spec fn process_rel<'a, T: Queryable>(&self, state: State<'a, T>, r: State<'a, T>) -> bool {
        sqsegs_rel(self@, state, r)
    }
""",
         ensures=[("rel", "self.process_rel(state, r)")],
         shapes=[("R6", 1, "{ let __f = $F; let ghost __i = $I; let __r = vf_iter_fold($X, $I, __f); "
                           "proof { lemma_fold_sqsegs(__f, $X@, __i, __r); } __r }")],
         closures={1: Cl(expect="segment.process(next)", types=["State<'a, T>", "&SingularQuerySegment"], ret="(o: State<'a, T>)",
                         requires=[("wf", "*segment matches SingularQuerySegment::Index(k) ==> ijson(k as int)")],
                         ensures=[("rel", "sqseg_rel(*segment, next, o)")])}),
]
