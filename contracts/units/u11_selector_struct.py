# Units: wildcard and name selectors (src/query/selector.rs) — C01, C02, C03
F = "src/query/selector.rs"

UNITS = [
    Unit(name="process_wildcard", file=F, fn="process_wildcard", order=11, serves=["C01", "C02", "C03"],
         shapes=[("R2", 1), ("R2v", 1)],
         ensures=[
             ("select", "nodes(r) == sel_wildcard(nd(__p0))"),
             ("shape", "r is Refs || r is Nothing"),
         ],
         closures={
             1: Cl(expect="Pointer::idx(elem, path.clone(), i)", types=["(usize, &_)"], ret="(q: Pointer<T>)",
                   ensures=[("ptr", "q.inner == __c1_0.1 && q.path@ == idx_path(path@, __c1_0.0 as int)")]),
             2: Cl(expect="Pointer::key(value, path.clone(), key)", types=["(&String, &_)"], ret="(q: Pointer<T>)",
                   ensures=[("ptr", "q.inner == __c2_0.1 && q.path@ == key_path(path@, __c2_0.0@)")]),
         }),
    Unit(name="normalize_json_key", file=F, fn="normalize_json_key", order=11, status="assumed", serves=["C01"],
         why_assumed="chars().peekable() loop over a String — no string reasoning in Verus; checked by the bounded back end (name lookup)",
         ensures=[("def", "r@ == norm_key(input@)")]),
    Unit(name="process_key", file=F, fn="process_key", order=11, serves=["C01", "C03"],
         ensures=[
             ("select", "nodes(r) == sel_name(nd(__p0), key@)"),
             ("shape", "r is Ref || r is Nothing"),
         ],
         closures={1: Cl(expect="Data::new_ref(Pointer::key(", types=["&'a T"], ret="(d: Data<'a, T>)",
                         ensures=[("ptr", "d matches Data::Ref(p) && p.inner == v && p.path@ == key_path(path@, key@)")])}),
]
