# Units: src/query/atom.rs, src/query/test.rs, Test::is_res_bool (src/parser/model.rs) — C05, C10
BOTH = "proof { T::from_bool_roundtrip(true); T::from_bool_roundtrip(false); }"

UNITS = [
    Unit(name="invert_bool", file="src/query/atom.rs", fn="invert_bool", order=33, serves=["C05", "C14"],
         ensures=[("def", "r.root == state.root && r.data == Data::<T>::Value(T::from_bool_spec(!truthy(state)))")],
         closures={1: Cl(expect="v.as_bool()", types=["T"], ret="(ob: Option<bool>)", ensures=[("def", "ob == v.as_bool_spec()")])}),
    Unit(name="Test::is_res_bool", file="src/parser/model.rs", impl="impl Test", fn="is_res_bool", order=33, serves=["C05", "C10", "C14"],
         ret_name="b",
         ensures=[("def", "b == (*self matches Test::Function(tf) && fn_is_logical(*tf))")]),
    Unit(name="FilterAtom::process", calls=['Filter::process', 'Test::process', 'Comparison::process'], file="src/query/atom.rs", impl="impl Query for FilterAtom", fn="process", order=33,
         trait_method=True, serves=["C05", "C10", "C14"],
         impl_extra="""
    open spec fn process_pre<'a, T: Queryable>(&self, state: State<'a, T>) -> bool { wf_atom(*self) && is_cur(state) }
    open spec fn process_rel<'a, T: Queryable>(&self, state: State<'a, T>, r: State<'a, T>) -> bool {
        truth_state(state, r, atom_truth(*self, cur_of(state), state.root))
    }
""",
         ensures=[("rel", "self.process_rel(state, r)")],
         body_prefix=BOTH,
         # equal multisets have equal lengths: "selects at least one node" is the same for the evaluator's and the RFC nodelist
         hints=[("let res = expr.process(state.clone());",
                 "proof { match &**expr { Test::RelQuery(v) => { lemma_ms_len(nodes(res.data), rfc_segs(v@, seq![cur_node(cur_of(state))], state.root)); } "
                 "Test::AbsQuery(q) => { lemma_ms_len(nodes(res.data), rfc_segs(q.segments@, seq![root_node(state.root)], state.root)); } _ => {} } "
                 "assert(!(**expr is Function) ==> (nodes(res.data).len() > 0) == test_truth(**expr, cur_of(state), state.root)); }")],
         closures={1: Cl(expect="State::bool(b, state.root)", types=["bool"], ret="(s: State<'a, T>)",
                         ensures=[("def", "s.root == state.root && s.data == Data::<'a, T>::Value(T::from_bool_spec(b))")])}),
    Unit(name="Test::process", calls=['Vec<Segment>::process', 'JpQuery::process', 'TestFunction::process'], file="src/query/test.rs", impl="impl Query for Test", fn="process", order=34,
         trait_method=True, serves=["C05", "C14"],
         impl_extra="""
    open spec fn process_pre<'a, T: Queryable>(&self, state: State<'a, T>) -> bool { wf_test(*self) && is_cur(state) }
    open spec fn process_rel<'a, T: Queryable>(&self, state: State<'a, T>, r: State<'a, T>) -> bool {
        match *self {
            Test::Function(tf) => fn_rel(*tf, state, r),
            // the query's nodelist: the RFC nodes with their multiplicities (and the RFC sequence when exact, rfc_reading)
            _ => r.root == state.root && is_nodes(r.data) && test_reading(*self, nodes(r.data), cur_of(state), state.root)
                && (test_singular(*self) ==> one_or_none(r.data)),
        }
    }
""",
         ensures=[("rel", "self.process_rel(state, r)")],
         body_prefix="proof { lemma_cur_nodes(state); match self { Test::RelQuery(v) => { lemma_rfc_reading(v@, seq![cur_node(cur_of(state))], state.root); } "
                     "Test::AbsQuery(q) => { lemma_rfc_reading(q.segments@, seq![root_node(state.root)], state.root); } _ => {} } }"),
]
