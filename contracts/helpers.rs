// ===== helpers.rs — rule E4: assumed contracts for iterator shapes; rule E5: Clone; rule E6: conversions =====
// Every `external_body` below is a trusted assumption about std / derive output, listed in the evidence.
// The bodies are the original std expressions (they are what runs); only the contract is assumed.

// E5: #[derive(Clone)] is structural
impl<'a, T: Queryable> Clone for Pointer<'a, T> {
    #[verifier::external_body]
    fn clone(&self) -> (r: Self) ensures r == *self { unimplemented!() }
}
impl<'a, T: Queryable> Clone for Data<'a, T> {
    #[verifier::external_body]
    fn clone(&self) -> (r: Self) ensures r == *self { unimplemented!() }
}
impl<'a, T: Queryable> Clone for State<'a, T> {
    #[verifier::external_body]
    fn clone(&self) -> (r: Self) ensures r == *self { unimplemented!() }
}

// R1: X.into_iter().chain(Y).collect()
#[verifier::external_body]
pub fn vf_chain_collect<A>(x: Vec<A>, y: Vec<A>) -> (r: Vec<A>)
    ensures r@ == x@ + y@,
{ x.into_iter().chain(y).collect() }

// R2: X.iter().enumerate().map(F).collect()
#[verifier::external_body]
pub fn vf_enumerate_map_collect<'x, A, B, F: Fn((usize, &'x A)) -> B>(x: &'x Vec<A>, f: F) -> (r: Vec<B>)
    requires forall|i: usize, a: &'x A| f.requires(((i, a),)),
    ensures r@.len() == x@.len(), forall|i: int| 0 <= i < x@.len() ==> f.ensures(((i as usize, &x@[i]),), #[trigger] r@[i]),
{ x.iter().enumerate().map(f).collect() }

// R2v: X.into_iter().map(F).collect()   (X by value)
#[verifier::external_body]
pub fn vf_into_map_collect<A, B, F: Fn(A) -> B>(x: Vec<A>, f: F) -> (r: Vec<B>)
    requires forall|a: A| f.requires((a,)),
    ensures r@.len() == x@.len(), forall|i: int| 0 <= i < x@.len() ==> f.ensures((x@[i],), #[trigger] r@[i]),
{ x.into_iter().map(f).collect() }

// R3: X.into_iter().flat_map(G).collect::<Vec<_>>()
pub open spec fn vpins<A, B, G: Fn(A) -> Vec<B>>(g: G, h: spec_fn(A) -> Seq<B>) -> bool {
    forall|a: A, o: Vec<B>| #[trigger] g.ensures((a,), o) ==> o@ == h(a)
}
#[verifier::external_body]
pub fn vf_flat_map_collect<A, B, G: Fn(A) -> Vec<B>>(x: Vec<A>, g: G) -> (r: Vec<B>)
    requires forall|a: A| g.requires((a,)),
    ensures forall|h: spec_fn(A) -> Seq<B>| vpins(g, h) ==> r@ == #[trigger] mapped(x@, h),
{ x.into_iter().flat_map(g).collect::<Vec<_>>() }

// R5: X.iter().any(P) / X.iter().all(P)
#[verifier::external_body]
pub fn vf_iter_any<A, P: Fn(&A) -> bool>(x: &Vec<A>, p: P) -> (r: bool)
    requires forall|a: &A| p.requires((a,)),
    ensures r ==> exists|i: int| 0 <= i < x@.len() && p.ensures((&#[trigger] x@[i],), true),
            !r ==> forall|i: int| 0 <= i < x@.len() ==> p.ensures((&#[trigger] x@[i],), false),
{ x.iter().any(p) }
#[verifier::external_body]
pub fn vf_iter_all<A, P: Fn(&A) -> bool>(x: &Vec<A>, p: P) -> (r: bool)
    requires forall|a: &A| p.requires((a,)),
    ensures r ==> forall|i: int| 0 <= i < x@.len() ==> p.ensures((&#[trigger] x@[i],), true),
            !r ==> exists|i: int| 0 <= i < x@.len() && p.ensures((&#[trigger] x@[i],), false),
{ x.iter().all(p) }
