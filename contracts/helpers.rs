// ===== helpers.rs — rule E4: assumed contracts for iterator shapes; rule E5: Clone; rule E6: conversions =====
// Every `external_body` below is a trusted assumption about std / derive output, listed in the evidence.
// The bodies are the original std expressions (they are what runs); only the contract is assumed.

// E5: #[derive(Clone)] is structural
impl<'a, T: Queryable> Clone for Pointer<'a, T> {
    #[verifier::external_body]
    fn clone(&self) -> (r: Self) ensures r == *self { unimplemented!() }
}
impl<'a, T: Queryable> Clone for Data<'a, T> {
    #[verifier::external_body]
    fn clone(&self) -> (r: Self) ensures r == *self { unimplemented!() }
}
impl<'a, T: Queryable> Clone for State<'a, T> {
    #[verifier::external_body]
    fn clone(&self) -> (r: Self) ensures r == *self { unimplemented!() }
}

// R1: X.into_iter().chain(Y).collect()
#[verifier::external_body]
pub fn vf_chain_collect<A>(x: Vec<A>, y: Vec<A>) -> (r: Vec<A>)
    ensures r@ == x@ + y@,
{ x.into_iter().chain(y).collect() }

// R2: X.iter().enumerate().map(F).collect()
#[verifier::external_body]
pub fn vf_enumerate_map_collect<'x, A, B, F: Fn((usize, &'x A)) -> B>(x: &'x Vec<A>, f: F) -> (r: Vec<B>)
    requires forall|i: usize, a: &'x A| f.requires(((i, a),)),
    ensures r@.len() == x@.len(), forall|i: int| 0 <= i < x@.len() ==> f.ensures(((i as usize, &x@[i]),), #[trigger] r@[i]),
{ x.iter().enumerate().map(f).collect() }

// R2v: X.into_iter().map(F).collect()   (X by value)
#[verifier::external_body]
pub fn vf_into_map_collect<A, B, F: Fn(A) -> B>(x: Vec<A>, f: F) -> (r: Vec<B>)
    requires forall|a: A| f.requires((a,)),
    ensures r@.len() == x@.len(), forall|i: int| 0 <= i < x@.len() ==> f.ensures((x@[i],), #[trigger] r@[i]),
{ x.into_iter().map(f).collect() }

// R3: X.into_iter().flat_map(G).collect::<Vec<_>>()
// assumed (primitive, relational): the i-th call of G yields some output allowed by G's contract;
// the outputs are concatenated in input order
pub open spec fn views<B>(parts: Seq<Vec<B>>) -> Seq<Seq<B>> { parts.map_values(|v: Vec<B>| v@) }
pub open spec fn flat_parts<A, B, G: Fn(A) -> Vec<B>>(g: G, x: Seq<A>, parts: Seq<Vec<B>>, r: Seq<B>) -> bool {
    parts.len() == x.len()
    && (forall|i: int| 0 <= i < x.len() ==> g.ensures((x[i],), #[trigger] parts[i]))
    && r == concat(views(parts))
}
#[verifier::external_body]
pub fn vf_flat_map_collect_raw<A, B, G: Fn(A) -> Vec<B>>(x: Vec<A>, g: G) -> (r: Vec<B>)
    requires forall|a: A| g.requires((a,)),
    ensures exists|parts: Seq<Vec<B>>| flat_parts(g, x@, parts, r@),
{ x.into_iter().flat_map(g).collect::<Vec<_>>() }

// proved wrapper (glue, not assumed): the node-level functional form used by Data::flat_map
pub open spec fn gpins<'a, T: Queryable + 'a, G: Fn(Pointer<'a, T>) -> Vec<Pointer<'a, T>>>(g: G, h: spec_fn(Node<'a, T>) -> Seq<Node<'a, T>>) -> bool {
    forall|a: Pointer<'a, T>, o: Vec<Pointer<'a, T>>| #[trigger] g.ensures((a,), o) ==> nds(o@) == h(nd(a))
}
pub fn vf_flat_map_collect<'a, T: Queryable + 'a, G: Fn(Pointer<'a, T>) -> Vec<Pointer<'a, T>>>(x: Vec<Pointer<'a, T>>, g: G) -> (r: Vec<Pointer<'a, T>>)
    requires forall|a: Pointer<'a, T>| g.requires((a,)),
    ensures forall|h: spec_fn(Node<'a, T>) -> Seq<Node<'a, T>>| gpins(g, h) ==> nds(r@) == #[trigger] mapped(nds(x@), h),
{
    let ghost xs = x@;
    let ghost gg = g;
    let r = vf_flat_map_collect_raw(x, g);
    proof {
        let parts = choose|parts: Seq<Vec<Pointer<'a, T>>>| flat_parts(gg, xs, parts, r@);
        assert forall|h: spec_fn(Node<'a, T>) -> Seq<Node<'a, T>>| gpins(gg, h) implies nds(r@) == #[trigger] mapped(nds(xs), h) by {
            assert forall|i: int| 0 <= i < xs.len() implies nds(#[trigger] views(parts)[i]) == h(nd(xs[i])) by {
                assert(gg.ensures((xs[i],), parts[i]));
            }
            lemma_parts_mapped(xs, views(parts), h);
        }
    }
    r
}

// R5: X.iter().any(P) / X.iter().all(P)
#[verifier::external_body]
pub fn vf_iter_any<A, P: Fn(&A) -> bool>(x: &Vec<A>, p: P) -> (r: bool)
    requires forall|a: &A| p.requires((a,)),
    ensures r ==> exists|i: int| 0 <= i < x@.len() && p.ensures((&#[trigger] x@[i],), true),
            !r ==> forall|i: int| 0 <= i < x@.len() ==> p.ensures((&#[trigger] x@[i],), false),
{ x.iter().any(p) }
#[verifier::external_body]
pub fn vf_iter_all<A, P: Fn(&A) -> bool>(x: &Vec<A>, p: P) -> (r: bool)
    requires forall|a: &A| p.requires((a,)),
    ensures r ==> forall|i: int| 0 <= i < x@.len() ==> p.ensures((&#[trigger] x@[i],), true),
            !r ==> exists|i: int| 0 <= i < x@.len() && p.ensures((&#[trigger] x@[i],), false),
{ x.iter().all(p) }

// E6: `x.into()` through the From<..> supertraits of Queryable (dropped by E6) -> `x.vf_into()`.
// The instances are assumed: they only name the conversion result (T::from_*_spec) so that specs can talk about it.
pub trait VfInto<U>: Sized {
    spec fn vf_into_spec(self) -> U;
    fn vf_into(self) -> (r: U) ensures r == self.vf_into_spec();
}
impl<T: Queryable> VfInto<T> for bool {
    open spec fn vf_into_spec(self) -> T { T::from_bool_spec(self) }
    #[verifier::external_body]
    fn vf_into(self) -> (r: T) { unimplemented!() }
}
impl<T: Queryable> VfInto<T> for i64 {
    open spec fn vf_into_spec(self) -> T { T::from_i64_spec(self) }
    #[verifier::external_body]
    fn vf_into(self) -> (r: T) { unimplemented!() }
}
impl<T: Queryable> VfInto<T> for f64 {
    open spec fn vf_into_spec(self) -> T { T::from_f64_spec(self) }
    #[verifier::external_body]
    fn vf_into(self) -> (r: T) { unimplemented!() }
}
impl<'s, T: Queryable> VfInto<T> for &'s str {
    open spec fn vf_into_spec(self) -> T { T::from_str_spec(self@) }
    #[verifier::external_body]
    fn vf_into(self) -> (r: T) { unimplemented!() }
}
