// ===== helpers.rs — rule E4: assumed contracts for iterator shapes; rule E5: Clone; rule E6: conversions =====
// Every `external_body` below is a trusted assumption about std / derive output, listed in the evidence.
// The bodies are the original std expressions (they are what runs); only the contract is assumed.

// E5: #[derive(Clone)] is structural
impl<'a, T: Queryable> Clone for Pointer<'a, T> {
    #[verifier::external_body]
    fn clone(&self) -> (r: Self) ensures r == *self { unimplemented!() }
}
impl<'a, T: Queryable> Clone for Data<'a, T> {
    #[verifier::external_body]
    fn clone(&self) -> (r: Self) ensures r == *self { unimplemented!() }
}
impl<'a, T: Queryable> Clone for State<'a, T> {
    #[verifier::external_body]
    fn clone(&self) -> (r: Self) ensures r == *self { unimplemented!() }
}

impl Clone for FnArg {
    #[verifier::external_body]
    fn clone(&self) -> (r: Self) ensures r == *self { unimplemented!() }
}

// std::borrow::Cow<'_, T> (arguments of Queryable::extension_custom).  vstd declares the type; the two accessors the
// code uses (`as_ref`, auto-deref) are assumed to return the borrowed or owned value (std's documented meaning).
pub uninterp spec fn cow_ref<'a, 'b, T: ?Sized + ToOwned>(c: &'b Cow<'a, T>) -> &'b T;
pub open spec fn cow_val<'a, T: Clone>(c: Cow<'a, T>) -> T { match c { Cow::Borrowed(b) => *b, Cow::Owned(o) => o } }
pub open spec fn cow_vals<'a, T: Clone>(cs: Seq<Cow<'a, T>>) -> Seq<T> { cs.map_values(|c: Cow<'a, T>| cow_val(c)) }
pub broadcast axiom fn axiom_cow_ref<'a, 'b, T: Clone>(c: &'b Cow<'a, T>)
    ensures *(#[trigger] cow_ref(c)) == cow_val(*c);
pub assume_specification<'a, 'b, T: ?Sized + ToOwned> [<std::borrow::Cow<'a, T> as std::convert::AsRef<T>>::as_ref] (c: &'b std::borrow::Cow<'a, T>) -> (r: &'b T)
    ensures r == cow_ref(c);
pub assume_specification<'a, 'b, T: ?Sized + ToOwned> [<std::borrow::Cow<'a, T> as std::ops::Deref>::deref] (c: &'b std::borrow::Cow<'a, T>) -> (r: &'b T)
    ensures r == cow_ref(c);

// rule E11: slice patterns.  `[a]` / `[a, b]` match exactly the slices of length 1 / 2 and bind references to the elements (Rust
// reference, slice patterns); the helper's body is proved against that reading
pub enum SV<'x, X> { S0, S1(&'x X), S2(&'x X, &'x X), More }
pub fn vf_slice_view<'x, X>(v: &'x Vec<X>) -> (r: SV<'x, X>)
    ensures v@.len() == 0 ==> r is S0, v@.len() == 1 ==> r == SV::S1(&v@[0]), v@.len() == 2 ==> r == SV::S2(&v@[0], &v@[1]), v@.len() > 2 ==> r is More,
{ if v.len() == 0 { SV::S0 } else if v.len() == 1 { SV::S1(&v[0]) } else if v.len() == 2 { SV::S2(&v[0], &v[1]) } else { SV::More } }

// The regex crate: the dependency's types are declared OPAQUE and the three operations the code uses are assumed contracts over
// uninterpreted spec functions (the engine is trusted; what is proved is how `regex` (src/query/test_function.rs) uses it).
#[verifier::external_body]
pub struct Regex { _opaque: () }
pub struct RegexError { pub opaque: () }
pub struct RegexMatch { pub opaque: () }
pub uninterp spec fn regex_valid(pattern: Seq<char>) -> bool;                          // Regex::new accepts the pattern
pub uninterp spec fn re_is_match(pattern: Seq<char>, hay: Seq<char>) -> bool;          // Regex::is_match
pub uninterp spec fn re_find(pattern: Seq<char>, hay: Seq<char>) -> bool;              // Regex::find(..).is_some()
impl Regex {
    pub uninterp spec fn pattern(&self) -> Seq<char>;
    #[verifier::external_body]
    pub fn new(re: &str) -> (r: Result<Regex, RegexError>)
        ensures r is Ok <==> regex_valid(re@), r matches Ok(x) ==> x.pattern() == re@,
    { unimplemented!() }
    #[verifier::external_body]
    pub fn is_match(&self, hay: &str) -> (b: bool) ensures b == re_is_match(self.pattern(), hay@) { unimplemented!() }
    #[verifier::external_body]
    pub fn find(&self, hay: &str) -> (r: Option<RegexMatch>) ensures r is Some <==> re_find(self.pattern(), hay@) { unimplemented!() }
}
pub assume_specification<T, E> [std::result::Result::<T, E>::unwrap_or] (x: std::result::Result<T, E>, d: T) -> (r: T)
    ensures r == (match x { Ok(v) => v, Err(_) => d });

// R1: X.into_iter().chain(Y).collect()
#[verifier::external_body]
pub fn vf_chain_collect<A>(x: Vec<A>, y: Vec<A>) -> (r: Vec<A>)
    ensures r@ == x@ + y@,
{ x.into_iter().chain(y).collect() }

// R2: X.iter().enumerate().map(F).collect()
#[verifier::external_body]
pub fn vf_enumerate_map_collect<'x, A, B, F: Fn((usize, &'x A)) -> B>(x: &'x Vec<A>, f: F) -> (r: Vec<B>)
    requires forall|i: usize, a: &'x A| f.requires(((i, a),)),
    ensures r@.len() == x@.len(), forall|i: int| 0 <= i < x@.len() ==> f.ensures(((i as usize, &x@[i]),), #[trigger] r@[i]),
{ x.iter().enumerate().map(f).collect() }

// R2v: X.into_iter().map(F).collect()   (X by value)
#[verifier::external_body]
pub fn vf_into_map_collect<A, B, F: Fn(A) -> B>(x: Vec<A>, f: F) -> (r: Vec<B>)
    requires forall|a: A| f.requires((a,)),
    ensures r@.len() == x@.len(), forall|i: int| 0 <= i < x@.len() ==> f.ensures((x@[i],), #[trigger] r@[i]),
{ x.into_iter().map(f).collect() }

// R2i: X.iter().map(F).collect::<Vec<_>>()   (X: &Vec) — assumed (primitive): F is applied to a reference to every element, in order
#[verifier::external_body]
pub fn vf_iter_map_collect<'x, A, B, F: Fn(&'x A) -> B>(x: &'x Vec<A>, f: F) -> (r: Vec<B>)
    requires forall|i: int| 0 <= i < x@.len() ==> f.requires((&#[trigger] x@[i],)),
    ensures r@.len() == x@.len(), forall|i: int| 0 <= i < x@.len() ==> f.ensures((&x@[i],), #[trigger] r@[i]),
{ x.iter().map(f).collect() }

// R3: X.into_iter().flat_map(G).collect::<Vec<_>>()
// assumed (primitive, relational): the i-th call of G yields some output allowed by G's contract;
// the outputs are concatenated in input order
pub open spec fn views<B>(parts: Seq<Vec<B>>) -> Seq<Seq<B>> { parts.map_values(|v: Vec<B>| v@) }
pub open spec fn flat_parts<A, B, G: Fn(A) -> Vec<B>>(g: G, x: Seq<A>, parts: Seq<Vec<B>>, r: Seq<B>) -> bool {
    parts.len() == x.len()
    && (forall|i: int| 0 <= i < x.len() ==> g.ensures((x[i],), #[trigger] parts[i]))
    && r == concat(views(parts))
}
#[verifier::external_body]
pub fn vf_flat_map_collect_raw<A, B, G: Fn(A) -> Vec<B>>(x: Vec<A>, g: G) -> (r: Vec<B>)
    requires forall|a: A| g.requires((a,)),
    ensures exists|parts: Seq<Vec<B>>| flat_parts(g, x@, parts, r@),
{ x.into_iter().flat_map(g).collect::<Vec<_>>() }

// proved wrapper (glue, not assumed): the node-level functional form used by Data::flat_map
pub open spec fn gpins<'a, T: Queryable + 'a, G: Fn(Pointer<'a, T>) -> Vec<Pointer<'a, T>>>(g: G, h: spec_fn(Node<'a, T>) -> Seq<Node<'a, T>>) -> bool {
    forall|a: Pointer<'a, T>, o: Vec<Pointer<'a, T>>| #[trigger] g.ensures((a,), o) ==> nds(o@) == h(nd(a))
}
pub fn vf_flat_map_collect<'a, T: Queryable + 'a, G: Fn(Pointer<'a, T>) -> Vec<Pointer<'a, T>>>(x: Vec<Pointer<'a, T>>, g: G) -> (r: Vec<Pointer<'a, T>>)
    requires forall|a: Pointer<'a, T>| g.requires((a,)),
    ensures forall|h: spec_fn(Node<'a, T>) -> Seq<Node<'a, T>>| gpins(g, h) ==> nds(r@) == #[trigger] mapped(nds(x@), h),
{
    let ghost xs = x@;
    let ghost gg = g;
    let r = vf_flat_map_collect_raw(x, g);
    proof {
        let parts = choose|parts: Seq<Vec<Pointer<'a, T>>>| flat_parts(gg, xs, parts, r@);
        assert forall|h: spec_fn(Node<'a, T>) -> Seq<Node<'a, T>>| gpins(gg, h) implies nds(r@) == #[trigger] mapped(nds(xs), h) by {
            assert forall|i: int| 0 <= i < xs.len() implies nds(#[trigger] views(parts)[i]) == h(nd(xs[i])) by {
                assert(gg.ensures((xs[i],), parts[i]));
            }
            lemma_parts_mapped(xs, views(parts), h);
        }
    }
    r
}

// R7: X.into_iter().map(F).flat_map(G).collect::<Vec<_>>()   (X: &Vec<A>, so F sees references)
// assumed (primitive, relational): F is applied to a reference to every element in order, G to each of F's results in order;
// the outputs of G are concatenated in input order
pub open spec fn rmf_ok<'x, A, B, C, F: Fn(&'x A) -> B, G: Fn(B) -> Vec<C>>(f: F, g: G, x: &'x Vec<A>, mids: Seq<B>, parts: Seq<Vec<C>>, r: Seq<C>) -> bool {
    mids.len() == x@.len() && parts.len() == x@.len()
    && (forall|i: int| 0 <= i < x@.len() ==> f.ensures((&x@[i],), #[trigger] mids[i]))
    && (forall|i: int| 0 <= i < x@.len() ==> g.ensures((mids[i],), #[trigger] parts[i]))
    && r == concat(views(parts))
}
#[verifier::external_body]
pub fn vf_ref_map_flat_map_collect_raw<'x, A, B, C, F: Fn(&'x A) -> B, G: Fn(B) -> Vec<C>>(x: &'x Vec<A>, f: F, g: G) -> (r: Vec<C>)
    requires forall|i: int| 0 <= i < x@.len() ==> f.requires((&#[trigger] x@[i],)), forall|b: B| g.requires((b,)),
    ensures exists|mids: Seq<B>, parts: Seq<Vec<C>>| rmf_ok(f, g, x, mids, parts, r@),
{ x.into_iter().map(f).flat_map(g).collect::<Vec<_>>() }

pub proof fn lemma_cow_vals_add<'a, T: Clone>(a: Seq<Cow<'a, T>>, b: Seq<Cow<'a, T>>)
    ensures cow_vals(a + b) == cow_vals(a) + cow_vals(b),
{ assert(cow_vals(a + b) =~= cow_vals(a) + cow_vals(b)); }
pub proof fn lemma_cow_concat<'a, T: Clone>(parts: Seq<Vec<Cow<'a, T>>>, h: spec_fn(int) -> Seq<T>)
    requires forall|i: int| 0 <= i < parts.len() ==> cow_vals(#[trigger] parts[i]@) == h(i),
    ensures cow_vals(concat(views(parts))) == concat(Seq::new(parts.len(), h)),
    decreases parts.len(),
{
    if parts.len() == 0 {
        assert(cow_vals(Seq::<Cow<'a, T>>::empty()) =~= Seq::<T>::empty());
    } else {
        let n = parts.len() - 1;
        lemma_cow_concat(parts.drop_last(), h);
        assert(views(parts).drop_last() =~= views(parts.drop_last()));
        assert(views(parts).last() == parts[n]@);
        lemma_cow_vals_add(concat(views(parts.drop_last())), parts[n]@);
        assert(Seq::new(parts.len(), h).drop_last() =~= Seq::new(parts.drop_last().len(), h));
        assert(Seq::new(parts.len(), h).last() == h(n));
    }
}
// proved wrapper (glue, not assumed): value-level functional form used by `custom`.  If for the i-th element every output of
// G on every output of F denotes the values h(i), the result denotes the concatenation of h(0), h(1), ..
pub fn vf_ref_map_flat_map_collect<'x, 'a, A, B, T: Clone, F: Fn(&'x A) -> B, G: Fn(B) -> Vec<Cow<'a, T>>>(x: &'x Vec<A>, f: F, g: G) -> (r: Vec<Cow<'a, T>>)
    requires forall|i: int| 0 <= i < x@.len() ==> f.requires((&#[trigger] x@[i],)), forall|b: B| g.requires((b,)),
    ensures forall|h: spec_fn(int) -> Seq<T>|
        (forall|i: int, b: B, o: Vec<Cow<'a, T>>| 0 <= i < x@.len() && #[trigger] f.ensures((&x@[i],), b) && #[trigger] g.ensures((b,), o) ==> cow_vals(o@) == h(i))
        ==> cow_vals(r@) == #[trigger] concat(Seq::new(x@.len(), h)),
{
    let ghost ff = f;
    let ghost gg = g;
    let r = vf_ref_map_flat_map_collect_raw(x, f, g);
    proof {
        let (mids, parts) = choose|mids: Seq<B>, parts: Seq<Vec<Cow<'a, T>>>| rmf_ok(ff, gg, x, mids, parts, r@);
        assert forall|h: spec_fn(int) -> Seq<T>|
            (forall|i: int, b: B, o: Vec<Cow<'a, T>>| 0 <= i < x@.len() && #[trigger] ff.ensures((&x@[i],), b) && #[trigger] gg.ensures((b,), o) ==> cow_vals(o@) == h(i))
            implies cow_vals(r@) == #[trigger] concat(Seq::new(x@.len(), h)) by {
            assert forall|i: int| 0 <= i < parts.len() implies cow_vals(#[trigger] parts[i]@) == h(i) by {
                assert(ff.ensures((&x@[i],), mids[i]));
                assert(gg.ensures((mids[i],), parts[i]));
            }
            lemma_cow_concat(parts, h);
        }
    }
    r
}

// R5: X.iter().any(P) / X.iter().all(P)
#[verifier::external_body]
pub fn vf_iter_any<A, P: Fn(&A) -> bool>(x: &Vec<A>, p: P) -> (r: bool)
    requires forall|i: int| 0 <= i < x@.len() ==> p.requires((&#[trigger] x@[i],)),
    ensures r ==> exists|i: int| 0 <= i < x@.len() && p.ensures((&#[trigger] x@[i],), true),
            !r ==> forall|i: int| 0 <= i < x@.len() ==> p.ensures((&#[trigger] x@[i],), false),
{ x.iter().any(p) }
#[verifier::external_body]
pub fn vf_iter_all<A, P: Fn(&A) -> bool>(x: &Vec<A>, p: P) -> (r: bool)
    requires forall|i: int| 0 <= i < x@.len() ==> p.requires((&#[trigger] x@[i],)),
    ensures r ==> forall|i: int| 0 <= i < x@.len() ==> p.ensures((&#[trigger] x@[i],), true),
            !r ==> exists|i: int| 0 <= i < x@.len() && p.ensures((&#[trigger] x@[i],), false),
{ x.iter().all(p) }

// E6: `x.into()` through the From<..> supertraits of Queryable (dropped by E6) -> `x.vf_into()`.
// The instances are assumed: they only name the conversion result (T::from_*_spec) so that specs can talk about it.
pub trait VfInto<U>: Sized {
    spec fn vf_into_spec(self) -> U;
    fn vf_into(self) -> (r: U) ensures r == self.vf_into_spec();
}
impl<T: Queryable> VfInto<T> for bool {
    open spec fn vf_into_spec(self) -> T { T::from_bool_spec(self) }
    #[verifier::external_body]
    fn vf_into(self) -> (r: T) { unimplemented!() }
}
impl<T: Queryable> VfInto<T> for i64 {
    open spec fn vf_into_spec(self) -> T { T::from_i64_spec(self) }
    #[verifier::external_body]
    fn vf_into(self) -> (r: T) { unimplemented!() }
}
impl<T: Queryable> VfInto<T> for f64 {
    open spec fn vf_into_spec(self) -> T { T::from_f64_spec(self) }
    #[verifier::external_body]
    fn vf_into(self) -> (r: T) { unimplemented!() }
}
impl<'s, T: Queryable> VfInto<T> for &'s str {
    open spec fn vf_into_spec(self) -> T { T::from_str_spec(self@) }
    #[verifier::external_body]
    fn vf_into(self) -> (r: T) { unimplemented!() }
}

// R4: X.into_iter().enumerate().filter(P).map(F).collect()   (X: &Vec<A>)
// R4v: X.into_iter().filter(P).map(F).collect()              (X: Vec<A>)
// assumed (primitive, relational): P is called once per element, in order; F is called on the kept
// elements, in order; the result is the sequence of F's outputs.
pub proof fn lemma_kept_bounds(n: int, keep: spec_fn(int) -> bool)
    ensures
        kept(n, keep).len() <= (if n > 0 { n } else { 0 }),
        forall|j: int| 0 <= j < kept(n, keep).len() ==> 0 <= #[trigger] kept(n, keep)[j] < n && keep(kept(n, keep)[j]),
    decreases n,
{
    if n > 0 { lemma_kept_bounds(n - 1, keep); }
}
pub proof fn lemma_kept_ext(n: int, k1: spec_fn(int) -> bool, k2: spec_fn(int) -> bool)
    requires forall|i: int| 0 <= i < n ==> #[trigger] k1(i) == k2(i),
    ensures kept(n, k1) == kept(n, k2),
    decreases n,
{
    if n > 0 { lemma_kept_ext(n - 1, k1, k2); }
}
pub open spec fn efm_ok<'x, A, B, P: Fn(&(usize, &'x A)) -> bool, F: Fn((usize, &'x A)) -> B>(
    p: P, f: F, x: &'x Vec<A>, bs: Seq<bool>, r: Seq<B>) -> bool {
    let ks = kept(x@.len() as int, |i: int| 0 <= i < bs.len() && bs[i]);
    bs.len() == x@.len()
    && (forall|i: int| 0 <= i < x@.len() ==> p.ensures((&(i as usize, &x@[i]),), #[trigger] bs[i]))
    && r.len() == ks.len()
    && (forall|j: int| 0 <= j < r.len() ==> 0 <= ks[j] < x@.len() && f.ensures(((ks[j] as usize, &x@[ks[j]]),), #[trigger] r[j]))
}
#[verifier::external_body]
pub fn vf_enumerate_filter_map_collect_raw<'x, A, B, P: Fn(&(usize, &'x A)) -> bool, F: Fn((usize, &'x A)) -> B>(x: &'x Vec<A>, p: P, f: F) -> (r: Vec<B>)
    requires forall|a: &(usize, &'x A)| p.requires((a,)), forall|a: (usize, &'x A)| f.requires((a,)),
    ensures exists|bs: Seq<bool>| efm_ok(p, f, x, bs, r@),
{ x.into_iter().enumerate().filter(p).map(f).collect() }

pub open spec fn fm_ok<A, B, P: Fn(&A) -> bool, F: Fn(A) -> B>(p: P, f: F, x: Seq<A>, bs: Seq<bool>, r: Seq<B>) -> bool {
    let ks = kept(x.len() as int, |i: int| 0 <= i < bs.len() && bs[i]);
    bs.len() == x.len()
    && (forall|i: int| 0 <= i < x.len() ==> p.ensures((&x[i],), #[trigger] bs[i]))
    && r.len() == ks.len()
    && (forall|j: int| 0 <= j < r.len() ==> 0 <= ks[j] < x.len() && f.ensures((x[ks[j]],), #[trigger] r[j]))
}
#[verifier::external_body]
pub fn vf_filter_map_collect_raw<A, B, P: Fn(&A) -> bool, F: Fn(A) -> B>(x: Vec<A>, p: P, f: F) -> (r: Vec<B>)
    requires forall|a: &A| p.requires((a,)), forall|a: A| f.requires((a,)),
    ensures exists|bs: Seq<bool>| fm_ok(p, f, x@, bs, r@),
{ x.into_iter().filter(p).map(f).collect() }

// proved wrappers (glue, not assumed): node-level functional form.  If P is pinned to `keep` and F is
// pinned (as a node) to `out` on the actual elements, the result denotes kept(..).map(out).
pub fn vf_enumerate_filter_map_collect<'x, 'a, T: Queryable + 'a, A, P: Fn(&(usize, &'x A)) -> bool, F: Fn((usize, &'x A)) -> Pointer<'a, T>>(
    x: &'x Vec<A>, p: P, f: F) -> (r: Vec<Pointer<'a, T>>)
    requires forall|a: &(usize, &'x A)| p.requires((a,)), forall|a: (usize, &'x A)| f.requires((a,)),
    ensures forall|keep: spec_fn(int) -> bool, out: spec_fn(int) -> Node<'a, T>|
        (forall|i: int, b: bool| 0 <= i < x@.len() && #[trigger] p.ensures((&(i as usize, &x@[i]),), b) ==> b == keep(i))
        && (forall|i: int, o: Pointer<'a, T>| 0 <= i < x@.len() && #[trigger] f.ensures(((i as usize, &x@[i]),), o) ==> nd(o) == out(i))
        ==> nds(r@) == #[trigger] kept(x@.len() as int, keep).map_values(out),
{
    let ghost pp = p;
    let ghost ff = f;
    let r = vf_enumerate_filter_map_collect_raw(x, p, f);
    proof {
        let bs = choose|bs: Seq<bool>| efm_ok(pp, ff, x, bs, r@);
        let kb = |i: int| 0 <= i < bs.len() && bs[i];
        lemma_kept_bounds(x@.len() as int, kb);
        assert forall|keep: spec_fn(int) -> bool, out: spec_fn(int) -> Node<'a, T>|
            (forall|i: int, b: bool| 0 <= i < x@.len() && #[trigger] pp.ensures((&(i as usize, &x@[i]),), b) ==> b == keep(i))
            && (forall|i: int, o: Pointer<'a, T>| 0 <= i < x@.len() && #[trigger] ff.ensures(((i as usize, &x@[i]),), o) ==> nd(o) == out(i))
            implies nds(r@) == #[trigger] kept(x@.len() as int, keep).map_values(out) by {
            assert forall|i: int| 0 <= i < x@.len() implies #[trigger] kb(i) == keep(i) by {
                assert(pp.ensures((&(i as usize, &x@[i]),), bs[i]));
            }
            lemma_kept_ext(x@.len() as int, kb, keep);
            let ks = kept(x@.len() as int, keep);
            assert forall|j: int| 0 <= j < r@.len() implies nd(#[trigger] r@[j]) == out(ks[j]) by {
                assert(ff.ensures(((ks[j] as usize, &x@[ks[j]]),), r@[j]));
            }
            assert(nds(r@) =~= ks.map_values(out));
        }
    }
    r
}
pub fn vf_filter_map_collect<'a, T: Queryable + 'a, A, P: Fn(&A) -> bool, F: Fn(A) -> Pointer<'a, T>>(
    x: Vec<A>, p: P, f: F) -> (r: Vec<Pointer<'a, T>>)
    requires forall|a: &A| p.requires((a,)), forall|a: A| f.requires((a,)),
    ensures forall|keep: spec_fn(int) -> bool, out: spec_fn(int) -> Node<'a, T>|
        (forall|i: int, b: bool| 0 <= i < x@.len() && #[trigger] p.ensures((&x@[i],), b) ==> b == keep(i))
        && (forall|i: int, o: Pointer<'a, T>| 0 <= i < x@.len() && #[trigger] f.ensures((x@[i],), o) ==> nd(o) == out(i))
        ==> nds(r@) == #[trigger] kept(x@.len() as int, keep).map_values(out),
{
    let ghost pp = p;
    let ghost ff = f;
    let ghost xs = x@;
    let r = vf_filter_map_collect_raw(x, p, f);
    proof {
        let bs = choose|bs: Seq<bool>| fm_ok(pp, ff, xs, bs, r@);
        let kb = |i: int| 0 <= i < bs.len() && bs[i];
        lemma_kept_bounds(xs.len() as int, kb);
        assert forall|keep: spec_fn(int) -> bool, out: spec_fn(int) -> Node<'a, T>|
            (forall|i: int, b: bool| 0 <= i < xs.len() && #[trigger] pp.ensures((&xs[i],), b) ==> b == keep(i))
            && (forall|i: int, o: Pointer<'a, T>| 0 <= i < xs.len() && #[trigger] ff.ensures((xs[i],), o) ==> nd(o) == out(i))
            implies nds(r@) == #[trigger] kept(xs.len() as int, keep).map_values(out) by {
            assert forall|i: int| 0 <= i < xs.len() implies #[trigger] kb(i) == keep(i) by {
                assert(pp.ensures((&xs[i],), bs[i]));
            }
            lemma_kept_ext(xs.len() as int, kb, keep);
            let ks = kept(xs.len() as int, keep);
            assert forall|j: int| 0 <= j < r@.len() implies nd(#[trigger] r@[j]) == out(ks[j]) by {
                assert(ff.ensures((xs[ks[j]],), r@[j]));
            }
            assert(nds(r@) =~= ks.map_values(out));
        }
    }
    r
}

// R6: X.iter().fold(init, F) — assumed (primitive, relational): F is applied left to right
pub open spec fn fold_rel<A, B, F: Fn(B, &A) -> B>(f: F, xs: Seq<A>, init: B, r: B) -> bool
    decreases xs.len()
{
    if xs.len() == 0 { r == init }
    else { exists|mid: B| fold_rel(f, xs.drop_last(), init, mid) && #[trigger] f.ensures((mid, &xs.last()), r) }
}
pub open spec fn fold_pre<A, B, F: Fn(B, &A) -> B>(f: F, xs: Seq<A>) -> bool {
    forall|b: B, i: int| 0 <= i < xs.len() ==> f.requires((b, &#[trigger] xs[i]))
}
#[verifier::external_body]
pub fn vf_iter_fold<A, B, F: Fn(B, &A) -> B>(x: &Vec<A>, init: B, f: F) -> (r: B)
    requires fold_pre(f, x@),
    ensures fold_rel(f, x@, init, r),
{ x.iter().fold(init, f) }

// str::chars().count(): number of Unicode scalar values (assumed: std's documented meaning; the view of a
// str in Verus is its sequence of chars)
#[verifier::external_body]
pub fn vf_chars_count(s: &str) -> (n: usize)
    ensures n == s@.len(),
{ s.chars().count() }

// E6: From<T> for JsonPathError (format!: opaque)
pub uninterp spec fn error_of<T: Queryable>(v: T) -> JsonPathError;
impl<T: Queryable> VfInto<JsonPathError> for T {
    open spec fn vf_into_spec(self) -> JsonPathError { error_of(self) }
    #[verifier::external_body]
    fn vf_into(self) -> (r: JsonPathError) { unimplemented!() }
}

// From<Pointer> for QueryRef: the std contract of From::from is `obeys_from_spec() ==> r == from_spec(v)`;
// the real body of the impl is checked against this from_spec (unit QueryRef::from_pointer)
impl<'a, T: Queryable> vstd::std_specs::convert::FromSpecImpl<Pointer<'a, T>> for QueryRef<'a, T> {
    open spec fn obeys_from_spec() -> bool { true }
    open spec fn from_spec(p: Pointer<'a, T>) -> Self { QueryRef(p.inner, p.path) }
}

// E3: error values built with format! (message text dropped)
#[verifier::external_body]
pub fn vf_error() -> (e: JsonPathError) { unimplemented!() }

// R6r: X.into_iter().map(F).reduce(G).unwrap_or(D)   (X: &Vec<A>) — assumed (primitive, relational):
// F is applied to every element in order, the results are combined left to right with G, D is returned for no element
// (the step relation is wrapped in a named predicate and used as the trigger: `acc[i]` as a trigger would
//  create `acc[i - 1]` and loop)
pub open spec fn reduce_step<B, G: Fn(B, B) -> B>(g: G, acc: Seq<B>, ys: Seq<B>, i: int) -> bool {
    g.ensures((acc[i - 1], ys[i]), acc[i])
}
pub open spec fn map_reduce_ok<A, B, F: Fn(&A) -> B, G: Fn(B, B) -> B>(f: F, g: G, x: Seq<A>, ys: Seq<B>, acc: Seq<B>, r: B) -> bool {
    ys.len() == x.len() && acc.len() == x.len() && x.len() > 0
    && (forall|i: int| 0 <= i < x.len() ==> f.ensures((&x[i],), #[trigger] ys[i]))
    && acc[0] == ys[0]
    && (forall|i: int| 1 <= i < x.len() ==> #[trigger] reduce_step(g, acc, ys, i))
    && r == acc[x.len() - 1]
}
#[verifier::external_body]
pub fn vf_map_reduce_or<A, B, F: Fn(&A) -> B, G: Fn(B, B) -> B>(x: &Vec<A>, f: F, g: G, d: B) -> (r: B)
    requires
        forall|i: int| 0 <= i < x@.len() ==> f.requires((&#[trigger] x@[i],)),
        forall|a: B, b: B| g.requires((a, b)),
    ensures
        x@.len() == 0 ==> r == d,
        x@.len() > 0 ==> exists|ys: Seq<B>, acc: Seq<B>| map_reduce_ok(f, g, x@, ys, acc, r),
{ x.into_iter().map(f).reduce(g).unwrap_or(d) }

// E6: From<&T> for State (state.rs:19-23 calls State::root): assumed instance, only its shape is stated.
// It is the value process_selectors returns for an EMPTY selector list, which wf excludes.
impl<'a, T: Queryable> VfInto<State<'a, T>> for &'a T {
    open spec fn vf_into_spec(self) -> State<'a, T> { root_state(self) }
    #[verifier::external_body]
    fn vf_into(self) -> (r: State<'a, T>) { unimplemented!() }
}

// E10: comparison operators on std types that Verus has no contract for -> named helpers (assumed: std's meaning)
// `a < b` on &str: lexicographic order of the UTF-8 bytes == order by Unicode scalar value
#[verifier::external_body]
pub fn vf_str_lt(a: &str, b: &str) -> (r: bool)
    ensures r == str_lt(a@, b@),
{ a < b }

// Rz: X.iter().zip(Y).all(P)   (X, Y: &Vec) — assumed (primitive): P is evaluated on the pairs (X[i], Y[i]), i < min(len)
pub open spec fn min_len<A, B>(x: Seq<A>, y: Seq<B>) -> int { if x.len() <= y.len() { x.len() as int } else { y.len() as int } }
#[verifier::external_body]
pub fn vf_zip_all<'x, A, B, P: Fn((&'x A, &'x B)) -> bool>(x: &'x Vec<A>, y: &'x Vec<B>, p: P) -> (r: bool)
    requires forall|i: int| 0 <= i < min_len(x@, y@) ==> p.requires(((&#[trigger] x@[i], &y@[i]),)),
    ensures r ==> forall|i: int| 0 <= i < min_len(x@, y@) ==> p.ensures(((&#[trigger] x@[i], &y@[i]),), true),
            !r ==> exists|i: int| 0 <= i < min_len(x@, y@) && p.ensures(((&#[trigger] x@[i], &y@[i]),), false),
{ x.iter().zip(y).all(p) }
// `a == b` on two values of the data type that are neither numbers nor containers: T's PartialEq (abstract)
#[verifier::external_body]
pub fn vf_scalar_eq<T: Queryable>(a: &T, b: &T) -> (r: bool)
    ensures r == scalar_eq(*a, *b),
{ unimplemented!() }

// `lhs == rhs` on two Vec<Pointer> (derived PartialEq; only reached for non-singular operands, which the
// contract of `eq` excludes): opaque
#[verifier::external_body]
pub fn vf_ptr_vecs_eq<'a, T: Queryable>(a: &Vec<Pointer<'a, T>>, b: &Vec<Pointer<'a, T>>) -> (r: bool)
{ unimplemented!() }
