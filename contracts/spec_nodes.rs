// ===== spec_nodes.rs — nodes, nodelists and the per-node meaning of the structural selectors =====
// A node is (the value found at a location, the text of its path).  References are transparent in
// Verus specs, so `inner` is compared by value; "it is a borrow of the caller's document" is carried
// by the lifetime 'a in the real signatures (checked by rustc) and by pointer identity in the bounded
// back end.
pub struct Node<'a, T: Queryable> { pub inner: &'a T, pub path: Seq<char> }

pub open spec fn nd<'a, T: Queryable>(p: Pointer<'a, T>) -> Node<'a, T> { Node { inner: p.inner, path: p.path@ } }
pub open spec fn nds<'a, T: Queryable>(v: Seq<Pointer<'a, T>>) -> Seq<Node<'a, T>> { v.map_values(|p: Pointer<'a, T>| nd(p)) }
pub open spec fn nodes<'a, T: Queryable>(d: Data<'a, T>) -> Seq<Node<'a, T>> {
    match d { Data::Ref(p) => seq![nd(p)], Data::Refs(v) => nds(v@), _ => Seq::empty() }
}
pub open spec fn is_nodes<'a, T: Queryable>(d: Data<'a, T>) -> bool { d is Ref || d is Refs || d is Nothing }

// RFC 9535 §2.1.2: "the result of a segment is the concatenation, in order, of the nodelists that
// result from applying it to each input node"
pub open spec fn concat<A>(parts: Seq<Seq<A>>) -> Seq<A> decreases parts.len() {
    if parts.len() == 0 { Seq::empty() } else { concat(parts.drop_last()) + parts.last() }
}
pub open spec fn mapped<A, B>(x: Seq<A>, h: spec_fn(A) -> Seq<B>) -> Seq<B> { concat(x.map_values(h)) }

// Path steps.  Abstract in Verus (no string reasoning): `idx_path(p, k)` / `key_path(p, s)` stand for
// "the path text built from parent path p and the step k / s".  That Pointer::idx / Pointer::key build
// the RFC 9535 §2.7 text for that step is the bounded obligation Pointer.text (native back end).
pub uninterp spec fn idx_path(path: Seq<char>, index: int) -> Seq<char>;
pub uninterp spec fn key_path(path: Seq<char>, key: Seq<char>) -> Seq<char>;
// the lookup key that `normalize_json_key` derives from the text of a name selector (abstract)
pub uninterp spec fn norm_key(sel_text: Seq<char>) -> Seq<char>;
pub open spec fn root_path() -> Seq<char> { seq!['$'] }

pub open spec fn arr_child<'a, T: Queryable>(n: Node<'a, T>, a: &'a Vec<T>, k: int) -> Node<'a, T> {
    Node { inner: &a@[k], path: idx_path(n.path, k) }
}
pub open spec fn obj_child<'a, T: Queryable>(n: Node<'a, T>, o: Seq<(&'a String, &'a T)>, k: int) -> Node<'a, T> {
    Node { inner: o[k].1, path: key_path(n.path, o[k].0@) }
}
// children of a node, in container order (RFC 9535 §1.1 "children", §2.3.2 wildcard)
pub open spec fn children<'a, T: Queryable>(n: Node<'a, T>) -> Seq<Node<'a, T>> {
    match (n.inner.as_array_spec(), n.inner.as_object_spec()) {
        (Some(a), _) => Seq::new(a@.len(), |k: int| arr_child(n, a, k)),
        (None, Some(o)) => Seq::new(o.len(), |k: int| obj_child(n, o, k)),
        (None, None) => Seq::empty(),
    }
}
pub open spec fn sel_wildcard<'a, T: Queryable>(n: Node<'a, T>) -> Seq<Node<'a, T>> { children(n) }

pub open spec fn sel_index<'a, T: Queryable>(n: Node<'a, T>, idx: i64) -> Seq<Node<'a, T>> {
    match n.inner.as_array_spec() {
        Some(a) => match rfc_index(a@.len() as int, idx as int) {
            Some(k) => seq![arr_child(n, a, k)],
            None => Seq::empty() },
        None => Seq::empty(),
    }
}
pub open spec fn sel_slice<'a, T: Queryable>(n: Node<'a, T>, start: Option<i64>, end: Option<i64>, step: Option<i64>) -> Seq<Node<'a, T>> {
    match n.inner.as_array_spec() {
        Some(a) => rfc_slice(a@.len() as int, start, end, step).map_values(|k: int| arr_child(n, a, k)),
        None => Seq::empty(),
    }
}
pub open spec fn sel_name<'a, T: Queryable>(n: Node<'a, T>, sel_text: Seq<char>) -> Seq<Node<'a, T>> {
    match n.inner.get_spec(norm_key(sel_text)) {
        Some(v) => seq![Node { inner: v, path: key_path(n.path, sel_text) }],
        None => Seq::empty(),
    }
}

// ---- lemmas about concat / mapped (proved) ----
pub broadcast proof fn lemma_mapped_one<A, B>(a: A, h: spec_fn(A) -> Seq<B>)
    ensures #[trigger] mapped(seq![a], h) == h(a),
{
    let s = seq![a].map_values(h);
    assert(s.drop_last() =~= Seq::<Seq<B>>::empty());
    assert(concat(s.drop_last()) =~= Seq::<B>::empty());
    assert(concat(s) =~= h(a));
}
pub broadcast proof fn lemma_mapped_none<A, B>(h: spec_fn(A) -> Seq<B>)
    ensures #[trigger] mapped(Seq::<A>::empty(), h) == Seq::<B>::empty(),
{
    assert(Seq::<A>::empty().map_values(h) =~= Seq::<Seq<B>>::empty());
}

// ---- nds (Pointer sequence -> Node sequence) distributes over the sequence operations (proved) ----
pub broadcast proof fn lemma_nds_add<'a, T: Queryable>(a: Seq<Pointer<'a, T>>, b: Seq<Pointer<'a, T>>)
    ensures #[trigger] nds(a + b) == nds(a) + nds(b),
{
    assert(nds(a + b) =~= nds(a) + nds(b));
}
pub broadcast proof fn lemma_nds_empty<'a, T: Queryable>()
    ensures #[trigger] nds(Seq::<Pointer<'a, T>>::empty()) == Seq::<Node<'a, T>>::empty(),
{
    assert(nds(Seq::<Pointer<'a, T>>::empty()) =~= Seq::<Node<'a, T>>::empty());
}
pub broadcast group group_nds { lemma_nds_add, lemma_nds_empty }

// the pointers carried by a Data value (exec-level view), nodes(d) == nds(ptrs(d))
pub open spec fn ptrs<'a, T: Queryable>(d: Data<'a, T>) -> Seq<Pointer<'a, T>> {
    match d { Data::Ref(p) => seq![p], Data::Refs(v) => v@, _ => Seq::empty() }
}
pub broadcast proof fn lemma_nodes_ptrs<'a, T: Queryable>(d: Data<'a, T>)
    ensures #[trigger] nodes(d) == nds(ptrs(d)),
{
    broadcast use group_nds;
}

// concat of a push / of mapped parts
pub proof fn lemma_concat_push<A>(parts: Seq<Seq<A>>, last: Seq<A>)
    ensures concat(parts.push(last)) == concat(parts) + last,
{
    assert(parts.push(last).drop_last() =~= parts);
}
// if every part, seen as nodes, is h(node of the input), the concatenation is `mapped`
pub proof fn lemma_parts_mapped<'a, T: Queryable>(
    x: Seq<Pointer<'a, T>>, parts: Seq<Seq<Pointer<'a, T>>>, h: spec_fn(Node<'a, T>) -> Seq<Node<'a, T>>)
    requires parts.len() == x.len(), forall|i: int| 0 <= i < x.len() ==> nds(#[trigger] parts[i]) == h(nd(x[i])),
    ensures nds(concat(parts)) == mapped(nds(x), h),
    decreases x.len(),
{
    broadcast use group_nds;
    if x.len() == 0 {
        assert(nds(x).map_values(h) =~= Seq::<Seq<Node<'a, T>>>::empty());
    } else {
        lemma_parts_mapped(x.drop_last(), parts.drop_last(), h);
        assert(nds(x).map_values(h).drop_last() =~= nds(x.drop_last()).map_values(h));
        assert(nds(x).map_values(h).last() == h(nd(x.last())));
    }
}

// ---- closure contracts that compose (see DESIGN.md §4) ----
// f is *pinned* to h when every output the contract of f allows denotes exactly the nodes h(input node)
pub open spec fn pins<'a, T: Queryable + 'a, F: Fn(Pointer<'a, T>) -> Data<'a, T>>(f: F, h: spec_fn(Node<'a, T>) -> Seq<Node<'a, T>>) -> bool {
    forall|p: Pointer<'a, T>, o: Data<'a, T>| #[trigger] f.ensures((p,), o) ==> nodes(o) == h(nd(p))
}
pub open spec fn nodey<'a, T: Queryable + 'a, F: Fn(Pointer<'a, T>) -> Data<'a, T>>(f: F) -> bool {
    forall|p: Pointer<'a, T>, o: Data<'a, T>| #[trigger] f.ensures((p,), o) ==> is_nodes(o)
}

// the state `State::root(root)` builds (abstract: only its shape is known)
pub uninterp spec fn root_state<'a, T: Queryable>(root: &'a T) -> State<'a, T>;
pub broadcast axiom fn axiom_root_state<'a, T: Queryable>(root: &'a T)
    ensures (#[trigger] root_state(root)).root == root,
            root_state(root).data matches Data::Ref(p) && nd(p) == (Node { inner: root, path: root_path() });
