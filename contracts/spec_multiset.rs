// ===== spec_multiset.rs — a multi-selector segment is RFC-exact as a MULTISET (nodes with multiplicity) =====
// The evaluator's nodelist (impl_segs: unions concatenated per selector, KNOWN FINDING KF-C02-union-order) and the
// RFC nodelist (rfc_segs: per input node) are permutations of each other, for every query.  Proved here.
pub open spec fn ms<A>(s: Seq<A>) -> Multiset<A> { s.to_multiset() }

pub proof fn lemma_ms_add<A>(a: Seq<A>, b: Seq<A>)
    ensures ms(a + b) == ms(a).add(ms(b)),
{
    vstd::seq_lib::lemma_multiset_commutative(a, b);
}
pub proof fn lemma_ms_empty<A>()
    ensures ms(Seq::<A>::empty()) == Multiset::<A>::empty(),
{
    Seq::<A>::empty().to_multiset_ensures();
    assert(ms(Seq::<A>::empty()) =~= Multiset::<A>::empty());
}
pub proof fn lemma_mapped_add<A, B>(a: Seq<A>, b: Seq<A>, h: spec_fn(A) -> Seq<B>)
    ensures mapped(a + b, h) == mapped(a, h) + mapped(b, h),
    decreases b.len(),
{
    if b.len() == 0 {
        assert(a + b =~= a);
        lemma_mapped_none(h);
        assert(mapped(a, h) + mapped(b, h) =~= mapped(a, h));
    } else {
        lemma_mapped_add(a, b.drop_last(), h);
        assert((a + b.drop_last()).push(b.last()) =~= a + b);
        lemma_mapped_push(a + b.drop_last(), b.last(), h);
        assert(b.drop_last().push(b.last()) =~= b);
        lemma_mapped_push(b.drop_last(), b.last(), h);
        assert(mapped(a, h) + (mapped(b.drop_last(), h) + h(b.last())) =~= (mapped(a, h) + mapped(b.drop_last(), h)) + h(b.last()));
    }
}
// L3: the multiset of `mapped(x, h)` depends only on the multiset of x
pub proof fn lemma_mapped_perm<A, B>(x: Seq<A>, y: Seq<A>, h: spec_fn(A) -> Seq<B>)
    requires ms(x) == ms(y),
    ensures ms(mapped(x, h)) == ms(mapped(y, h)),
    decreases x.len(),
{
    x.to_multiset_ensures();
    y.to_multiset_ensures();
    if x.len() == 0 {
        assert(y.len() == 0);
        assert(x =~= y);
    } else {
        let a = x.last();
        let x1 = x.drop_last();
        assert(x1.push(a) =~= x);
        assert(ms(x).count(a) > 0);
        assert(y.contains(a));
        let k = choose|k: int| 0 <= k < y.len() && y[k] == a;
        let y1 = y.remove(k);
        vstd::seq_lib::to_multiset_remove(y, k);
        x1.to_multiset_ensures();
        assert(ms(x1).insert(a) =~= ms(x));
        assert(ms(x1) =~= ms(x).remove(a));
        assert(ms(y1) =~= ms(x1));
        lemma_mapped_perm(x1, y1, h);
        lemma_mapped_push(x1, a, h);
        // y == y[..k] + [a] + y[k+1..]
        let (p, q) = (y.subrange(0, k), y.subrange(k + 1, y.len() as int));
        assert(y =~= p + seq![a] + q);
        assert(y1 =~= p + q);
        lemma_mapped_add(p + seq![a], q, h);
        lemma_mapped_add(p, seq![a], h);
        lemma_mapped_one(a, h);
        lemma_mapped_add(p, q, h);
        lemma_ms_add(mapped(x1, h), h(a));
        lemma_ms_add(mapped(p, h) + h(a), mapped(q, h));
        lemma_ms_add(mapped(p, h), h(a));
        lemma_ms_add(mapped(p, h), mapped(q, h));
        assert(ms(mapped(y, h)) =~= ms(mapped(p, h)).add(ms(h(a))).add(ms(mapped(q, h))));
        assert(ms(mapped(y1, h)) =~= ms(mapped(p, h)).add(ms(mapped(q, h))));
        assert(ms(mapped(x, h)) =~= ms(mapped(x1, h)).add(ms(h(a))));
        assert(ms(mapped(y, h)) =~= ms(mapped(y1, h)).add(ms(h(a))));
    }
}
// L4: mapping with h1 and with h2 and concatenating the two results == mapping with "h1 then h2", as multisets
pub proof fn lemma_mapped_zip<A, B>(x: Seq<A>, h1: spec_fn(A) -> Seq<B>, h2: spec_fn(A) -> Seq<B>, h12: spec_fn(A) -> Seq<B>)
    requires forall|a: A| #[trigger] h12(a) == h1(a) + h2(a),
    ensures ms(mapped(x, h1) + mapped(x, h2)) == ms(mapped(x, h12)),
    decreases x.len(),
{
    if x.len() == 0 {
        lemma_mapped_none(h1); lemma_mapped_none(h2); lemma_mapped_none(h12);
        assert(mapped(x, h1) + mapped(x, h2) =~= Seq::<B>::empty());
    } else {
        let a = x.last();
        let x1 = x.drop_last();
        assert(x1.push(a) =~= x);
        lemma_mapped_zip(x1, h1, h2, h12);
        lemma_mapped_push(x1, a, h1); lemma_mapped_push(x1, a, h2); lemma_mapped_push(x1, a, h12);
        lemma_ms_add(mapped(x1, h1) + h1(a), mapped(x1, h2) + h2(a));
        lemma_ms_add(mapped(x1, h1), h1(a));
        lemma_ms_add(mapped(x1, h2), h2(a));
        lemma_ms_add(mapped(x1, h1), mapped(x1, h2));
        lemma_ms_add(mapped(x1, h12), h12(a));
        lemma_ms_add(h1(a), h2(a));
        assert(ms(mapped(x, h1) + mapped(x, h2)) =~= ms(mapped(x1, h1)).add(ms(h1(a))).add(ms(mapped(x1, h2)).add(ms(h2(a)))));
        assert(ms(mapped(x, h12)) =~= ms(mapped(x1, h12)).add(ms(h1(a)).add(ms(h2(a)))));
        assert(ms(mapped(x1, h1)).add(ms(h1(a))).add(ms(mapped(x1, h2)).add(ms(h2(a)))) =~= ms(mapped(x1, h1)).add(ms(mapped(x1, h2))).add(ms(h1(a)).add(ms(h2(a)))));
    }
}

// ---- the nodelist the evaluator computes (same as rfc_seg except that a multi-selector segment is by-selector) ----
pub open spec fn impl_seg<'a, T: Queryable>(seg: Segment, input: Seq<Node<'a, T>>, root: &'a T) -> Seq<Node<'a, T>>
    decreases seg
{
    match seg {
        Segment::Selector(s) => mapped(input, sel_fn(s, root)),
        Segment::Selectors(v) => sels_by_selector(v@, input, root),
        Segment::Descendant(b) => impl_seg(*b, mapped(input, desc_fn()), root),
    }
}
pub open spec fn impl_segs<'a, T: Queryable>(segs: Seq<Segment>, input: Seq<Node<'a, T>>, root: &'a T) -> Seq<Node<'a, T>>
    decreases segs.len()
{
    if segs.len() == 0 { input } else { impl_seg(segs.last(), impl_segs(segs.drop_last(), input, root), root) }
}
// by-selector concatenation is a permutation of the per-node concatenation
pub proof fn lemma_by_selector_perm<'a, T: Queryable>(ss: Seq<Selector>, x: Seq<Node<'a, T>>, root: &'a T)
    ensures ms(sels_by_selector(ss, x, root)) == ms(mapped(x, sels_fn(ss, root))),
    decreases ss.len(),
{
    reveal_with_fuel(sels_by_selector, 2);
    if ss.len() == 0 {
        assert forall|i: int| 0 <= i < x.len() implies #[trigger] x.map_values(sels_fn(ss, root))[i] == Seq::<Node<'a, T>>::empty() by {}
        lemma_concat_empties(x.map_values(sels_fn(ss, root)));
    } else {
        lemma_by_selector_perm(ss.drop_last(), x, root);
        let (h1, h2, h12) = (sels_fn(ss.drop_last(), root), sel_fn(ss.last(), root), sels_fn(ss, root));
        lemma_mapped_zip(x, h1, h2, h12);
        lemma_ms_add(sels_by_selector(ss.drop_last(), x, root), mapped(x, h2));
        lemma_ms_add(mapped(x, h1), mapped(x, h2));
    }
}
pub proof fn lemma_concat_empties<A>(parts: Seq<Seq<A>>)
    requires forall|i: int| 0 <= i < parts.len() ==> #[trigger] parts[i] == Seq::<A>::empty(),
    ensures concat(parts) == Seq::<A>::empty(),
    decreases parts.len(),
{
    if parts.len() != 0 {
        lemma_concat_empties(parts.drop_last());
        assert(concat(parts.drop_last()) + parts.last() =~= Seq::<A>::empty());
    }
}
// one segment: evaluator and RFC agree as multisets on permuted inputs
pub proof fn lemma_seg_perm<'a, T: Queryable>(s: Segment, x: Seq<Node<'a, T>>, y: Seq<Node<'a, T>>, root: &'a T)
    requires ms(x) == ms(y),
    ensures ms(impl_seg(s, x, root)) == ms(rfc_seg(s, y, root)),
    decreases s,
{
    match s {
        Segment::Selector(sel) => { lemma_mapped_perm(x, y, sel_fn(sel, root)); }
        Segment::Selectors(v) => {
            lemma_by_selector_perm(v@, x, root);
            lemma_mapped_perm(x, y, sels_fn(v@, root));
        }
        Segment::Descendant(b) => {
            lemma_mapped_perm(x, y, desc_fn::<T>());
            lemma_seg_perm(*b, mapped(x, desc_fn()), mapped(y, desc_fn()), root);
        }
    }
}
// the whole segment list
pub proof fn lemma_segs_perm<'a, T: Queryable>(segs: Seq<Segment>, x: Seq<Node<'a, T>>, root: &'a T)
    ensures ms(impl_segs(segs, x, root)) == ms(rfc_segs(segs, x, root)),
    decreases segs.len(),
{
    if segs.len() != 0 {
        lemma_segs_perm(segs.drop_last(), x, root);
        lemma_seg_perm(segs.last(), impl_segs(segs.drop_last(), x, root), rfc_segs(segs.drop_last(), x, root), root);
    }
}
// and the evaluator's nodelist IS the RFC nodelist, as a sequence, when no multi-selector segment receives several nodes
pub proof fn lemma_seg_exact<'a, T: Queryable>(s: Segment, x: Seq<Node<'a, T>>, root: &'a T)
    requires seg_exact(s, x),
    ensures impl_seg(s, x, root) == rfc_seg(s, x, root),
    decreases s,
{
    match s {
        Segment::Selector(sel) => {}
        Segment::Selectors(v) => { lemma_by_selector_single(v@, x, root); }
        Segment::Descendant(b) => { lemma_seg_exact(*b, mapped(x, desc_fn()), root); }
    }
}
pub proof fn lemma_segs_exact<'a, T: Queryable>(segs: Seq<Segment>, x: Seq<Node<'a, T>>, root: &'a T)
    requires segs_exact(segs, x.len() <= 1),
    ensures impl_segs(segs, x, root) == rfc_segs(segs, x, root),
    decreases segs.len(),
{
    if segs.len() != 0 {
        let pre = segs.drop_last();
        assert(forall|i: int| 0 <= i < pre.len() ==> pre[i] == segs[i]);
        lemma_segs_exact(pre, x, root);
        assert(segs.last() == segs[segs.len() - 1]);
        if segs.len() == 1 { assert(impl_segs(pre, x, root) == x); }
        lemma_seg_exact(segs.last(), impl_segs(pre, x, root), root);
    }
}
// equal multisets: equal lengths; a singleton determines its element
pub proof fn lemma_ms_len<A>(a: Seq<A>, b: Seq<A>)
    requires ms(a) == ms(b),
    ensures a.len() == b.len(), a.len() == 1 ==> a == b,
{
    a.to_multiset_ensures();
    b.to_multiset_ensures();
    if a.len() == 1 {
        assert(ms(a).count(a[0]) > 0);
        assert(b.contains(a[0]));
        assert(b =~= a);
    }
}
// the evaluator's `..` expands to containers only: the by-selector nodelist does not see scalar inputs either
pub proof fn lemma_by_selector_containers<'a, T: Queryable>(ss: Seq<Selector>, x: Seq<Node<'a, T>>, root: &'a T)
    ensures sels_by_selector(ss, x, root) == sels_by_selector(ss, containers(x), root),
    decreases ss.len(),
{
    reveal_with_fuel(sels_by_selector, 2);
    if ss.len() != 0 {
        lemma_by_selector_containers(ss.drop_last(), x, root);
        let h = sel_fn(ss.last(), root);
        assert forall|n: Node<'a, T>| !is_container(n) implies #[trigger] h(n) == Seq::<Node<'a, T>>::empty() by { lemma_sel_scalar(ss.last(), n, root); }
        lemma_mapped_containers(x, h);
    }
}
pub proof fn lemma_impl_seg_ignores_scalars<'a, T: Queryable>(s: Segment, x: Seq<Node<'a, T>>, y: Seq<Node<'a, T>>, root: &'a T)
    requires containers(x) == containers(y),
    ensures impl_seg(s, x, root) == impl_seg(s, y, root),
    decreases s,
{
    match s {
        Segment::Selector(sel) => {
            let h = sel_fn(sel, root);
            assert forall|n: Node<'a, T>| !is_container(n) implies #[trigger] h(n) == Seq::<Node<'a, T>>::empty() by { lemma_sel_scalar(sel, n, root); }
            lemma_mapped_containers(x, h);
            lemma_mapped_containers(y, h);
        }
        Segment::Selectors(v) => {
            lemma_by_selector_containers(v@, x, root);
            lemma_by_selector_containers(v@, y, root);
        }
        Segment::Descendant(b) => {
            let d = desc_fn::<T>();
            let dc = |n: Node<'a, T>| containers(d(n));
            lemma_containers_mapped(x, d);
            lemma_containers_mapped(y, d);
            assert forall|n: Node<'a, T>| !is_container(n) implies #[trigger] dc(n) == Seq::<Node<'a, T>>::empty() by { lemma_desc_scalar(n); }
            lemma_mapped_containers(x, dc);
            lemma_mapped_containers(y, dc);
            lemma_impl_seg_ignores_scalars(*b, mapped(x, d), mapped(y, d), root);
        }
    }
}
pub proof fn lemma_impl_descendant_containers<'a, T: Queryable>(s: Segment, x: Seq<Node<'a, T>>, root: &'a T)
    ensures impl_seg(s, mapped(x, desc_c_fn()), root) == impl_seg(s, mapped(x, desc_fn()), root),
{
    let d = desc_fn::<T>();
    let dc = desc_c_fn::<T>();
    let dc2 = |n: Node<'a, T>| containers(d(n));
    assert(mapped(x, dc) == mapped(x, dc2)) by { assert(x.map_values(dc) =~= x.map_values(dc2)); }
    lemma_containers_mapped(x, d);
    lemma_containers_all(mapped(x, d));
    lemma_containers_fix(containers(mapped(x, d)));
    lemma_impl_seg_ignores_scalars(s, mapped(x, dc), mapped(x, d), root);
}

// the evaluator's nodelist for a whole query
pub open spec fn impl_query<'a, T: Queryable>(q: JpQuery, root: &'a T) -> Seq<Node<'a, T>> {
    impl_segs(q.segments@, seq![root_node(root)], root)
}
