// ===== queryable_trait.rs — rule E6: the trait `Queryable` of src/query/queryable.rs =====
// Kept: the exec signatures of the required methods (each one is compared with /repo on every run).
// Dropped: the supertrait list except Clone (Default + Debug + From<..> + PartialEq; `for<'a> From<&'a str>`
// is not expressible), the provided methods reference / reference_mut (&mut), and the DEFAULT BODY of the
// provided method extension_custom (`Self::null()`; only its signature is kept, as the hook the engine calls).
// Added: one spec accessor per exec accessor (the abstract JSON view) and the facts a faithful
// implementor satisfies (proof fns without body = assumptions on implementors, listed in the evidence).
pub trait Queryable: Sized + Clone {
    spec fn as_array_spec(&self) -> Option<&Vec<Self>>;
    spec fn as_object_spec(&self) -> Option<Seq<(&String, &Self)>>;
    spec fn as_str_spec(&self) -> Option<Seq<char>>;
    spec fn as_i64_spec(&self) -> Option<i64>;
    spec fn as_f64_spec(&self) -> Option<f64>;
    spec fn as_bool_spec(&self) -> Option<bool>;
    spec fn get_spec(&self, key: Seq<char>) -> Option<&Self>;
    spec fn null_spec() -> Self;
    spec fn from_bool_spec(b: bool) -> Self;
    spec fn from_i64_spec(v: i64) -> Self;
    spec fn from_f64_spec(v: f64) -> Self;
    spec fn from_str_spec(s: Seq<char>) -> Self;
    // the data type's extension hook (C14): a function of the function name and the argument VALUES
    spec fn ext_spec(name: Seq<char>, args: Seq<Self>) -> Self;
    // nesting depth of the value (ghost; only makes spec recursion over documents well-founded)
    spec fn height_spec(&self) -> nat;

    //@sig
    fn get(&self, key: &str) -> (r: Option<&Self>)
        ensures r == self.get_spec(key@);
    //@sig
    fn as_array(&self) -> (r: Option<&Vec<Self>>)
        ensures r == self.as_array_spec(),
                r matches Some(a) ==> a@.len() < 0x4000_0000_0000_0000;
    //@sig
    fn as_object(&self) -> (r: Option<Vec<(&String, &Self)>>)
        ensures match (r, self.as_object_spec()) { (Some(v), Some(s)) => v@ == s, (None, None) => true, _ => false };
    //@sig
    fn as_str(&self) -> (r: Option<&str>)
        ensures match (r, self.as_str_spec()) { (Some(v), Some(s)) => v@ == s, (None, None) => true, _ => false };
    //@sig
    fn as_i64(&self) -> (r: Option<i64>)
        ensures r == self.as_i64_spec();
    //@sig
    fn as_f64(&self) -> (r: Option<f64>)
        ensures r == self.as_f64_spec();
    //@sig
    fn as_bool(&self) -> (r: Option<bool>)
        ensures r == self.as_bool_spec();
    //@sig
    fn null() -> (r: Self)
        ensures r == Self::null_spec();
    //@sig-provided
    fn extension_custom(_name: &str, _args: Vec<Cow<Self>>) -> (r: Self)
        ensures r == Self::ext_spec(_name@, cow_vals(_args@));

    // faithful-implementor facts (assumed)
    proof fn from_bool_roundtrip(b: bool)
        ensures Self::from_bool_spec(b).as_bool_spec() == Some(b);
    proof fn array_len_bound(&self)
        ensures self.as_array_spec() matches Some(a) ==> a@.len() < 0x4000_0000_0000_0000;
    proof fn get_only_on_objects(&self, key: Seq<char>)
        ensures self.get_spec(key) is Some ==> self.as_object_spec() is Some;
    proof fn children_are_smaller(&self)
        ensures
            self.as_array_spec() matches Some(a) ==> forall|i: int| 0 <= i < a@.len() ==> (#[trigger] a@[i]).height_spec() < self.height_spec(),
            self.as_object_spec() matches Some(o) ==> forall|i: int| 0 <= i < o.len() ==> (#[trigger] o[i]).1.height_spec() < self.height_spec();
}
