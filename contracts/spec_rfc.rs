// ===== spec_rfc.rs — RFC 9535 semantics of the AST (src/parser/model.rs types), written from the RFC =====
// Monolithic, mutually recursive spec functions over the real AST types; never dispatched through a trait.

// ---------------------------------------------------------------------------------------------
// well-formedness: every integer of the query is within the I-JSON range (RFC 9535 §2.1); this is
// what the parser's validate_range call sites establish and what "programmatically built queries
// whose integers are in the I-JSON range" means in the property statements.
// ---------------------------------------------------------------------------------------------
pub open spec fn wf_selector(s: Selector) -> bool decreases s {
    match s {
        Selector::Index(i) => ijson(i as int),
        Selector::Slice(a, b, c) => opt_ijson(a) && opt_ijson(b) && opt_ijson(c),
        Selector::Filter(f) => wf_filter(f),
        _ => true,
    }
}
pub open spec fn wf_segment(s: Segment) -> bool decreases s {
    match s {
        Segment::Descendant(b) => wf_segment(*b),
        Segment::Selector(sel) => wf_selector(sel),
        // (the grammar has no empty bracketed selection)
        Segment::Selectors(v) => v@.len() > 0 && forall|i: int| 0 <= i < v@.len() ==> wf_selector(#[trigger] v@[i]),
    }
}
pub open spec fn wf_segments(v: Seq<Segment>) -> bool decreases v {
    forall|i: int| 0 <= i < v.len() ==> wf_segment(#[trigger] v[i])
}
pub open spec fn has_union(s: Segment) -> bool decreases s {
    match s { Segment::Selectors(v) => true, Segment::Descendant(b) => has_union(*b), Segment::Selector(sel) => false }
}
pub open spec fn union_free(segs: Seq<Segment>) -> bool {
    forall|i: int| 0 <= i < segs.len() ==> !has_union(#[trigger] segs[i])
}
// the segment list is evaluated RFC-exactly from this input: no multi-selector part anywhere, except that the FIRST
// segment may be a multi-selector segment when the list starts from a single node (KNOWN FINDING KF-C02-union-order)
pub open spec fn segs_exact(segs: Seq<Segment>, single_input: bool) -> bool {
    forall|i: int| 0 <= i < segs.len() ==> !has_union(#[trigger] segs[i]) || (i == 0 && single_input && segs[i] is Selectors)
}
pub open spec fn wf_filter(f: Filter) -> bool decreases f {
    match f {
        Filter::Or(v) => forall|i: int| 0 <= i < v@.len() ==> wf_filter(#[trigger] v@[i]),
        Filter::And(v) => forall|i: int| 0 <= i < v@.len() ==> wf_filter(#[trigger] v@[i]),
        Filter::Atom(a) => wf_atom(a),
    }
}
pub open spec fn wf_atom(a: FilterAtom) -> bool decreases a {
    match a {
        FilterAtom::Filter { expr, not } => wf_filter(*expr),
        // RFC 9535 2.4.3: a function used as a test expression must be LogicalType (or NodesType, which no built-in returns)
        FilterAtom::Test { expr, not } => wf_test(*expr) && (*expr matches Test::Function(tf) ==> fn_is_logical(*tf)),
        FilterAtom::Comparison(c) => wf_cmp(*c),
    }
}
pub open spec fn wf_test(t: Test) -> bool decreases t {
    match t {
        Test::RelQuery(v) => wf_segments(v@),
        Test::AbsQuery(q) => wf_segments(q.segments@),
        Test::Function(tf) => wf_fn(*tf),
    }
}
pub open spec fn cmp_lhs(c: Comparison) -> Comparable {
    match c { Comparison::Eq(l, r) => l, Comparison::Ne(l, r) => l, Comparison::Gt(l, r) => l,
              Comparison::Gte(l, r) => l, Comparison::Lt(l, r) => l, Comparison::Lte(l, r) => l }
}
pub open spec fn cmp_rhs(c: Comparison) -> Comparable {
    match c { Comparison::Eq(l, r) => r, Comparison::Ne(l, r) => r, Comparison::Gt(l, r) => r,
              Comparison::Gte(l, r) => r, Comparison::Lt(l, r) => r, Comparison::Lte(l, r) => r }
}
pub open spec fn wf_cmp(c: Comparison) -> bool decreases c {
    match c {
        Comparison::Eq(l, r) => wf_comparable(l) && wf_comparable(r),
        Comparison::Ne(l, r) => wf_comparable(l) && wf_comparable(r),
        Comparison::Gt(l, r) => wf_comparable(l) && wf_comparable(r),
        Comparison::Gte(l, r) => wf_comparable(l) && wf_comparable(r),
        Comparison::Lt(l, r) => wf_comparable(l) && wf_comparable(r),
        Comparison::Lte(l, r) => wf_comparable(l) && wf_comparable(r),
    }
}
pub open spec fn wf_comparable(c: Comparable) -> bool decreases c {
    match c {
        Comparable::Literal(l) => true,
        // RFC 9535 2.4.3: only a ValueType function is comparable
        Comparable::Function(tf) => wf_fn(tf) && !fn_is_logical(tf),
        Comparable::SingularQuery(q) => wf_sq(q),
    }
}
pub open spec fn wf_sq_segs(v: Seq<SingularQuerySegment>) -> bool {
    forall|i: int| 0 <= i < v.len() ==> (#[trigger] v[i] matches SingularQuerySegment::Index(k) ==> ijson(k as int))
}
pub open spec fn wf_sq(q: SingularQuery) -> bool {
    match q { SingularQuery::Current(v) => wf_sq_segs(v@), SingularQuery::Root(v) => wf_sq_segs(v@) }
}
// RFC 9535 2.4.3 well-typedness, as far as the evaluator relies on it: a ValueType parameter takes a
// literal, a singular query or a value-typed function (never a non-singular query)
pub open spec fn singular_segs(v: Seq<Segment>) -> bool {
    forall|i: int| 0 <= i < v.len() ==> (#[trigger] v[i] matches Segment::Selector(s) && (s is Name || s is Index))
}
pub open spec fn test_singular(t: Test) -> bool {
    match t { Test::RelQuery(v) => singular_segs(v@), Test::AbsQuery(q) => singular_segs(q.segments@), Test::Function(tf) => false }
}
pub open spec fn arg_value_typed(a: FnArg) -> bool {
    match a {
        FnArg::Literal(l) => true,
        FnArg::Filter(f) => false,
        FnArg::Test(t) => test_singular(*t) || (*t matches Test::Function(tf) && !fn_is_logical(*tf)),
    }
}
pub open spec fn arg_plain(a: FnArg) -> bool { arg_value_typed(a) || a is Filter }
pub open spec fn arg_logical_fn(a: FnArg) -> bool {
    a matches FnArg::Test(t) && *t matches Test::Function(tf) && fn_is_logical(*tf)
}
pub open spec fn wf_fn(tf: TestFunction) -> bool decreases tf {
    match tf {
        // an extension function takes VALUES (RFC 9535 2.4.1: ValueType parameters): each argument is a literal, a singular query,
        // a value-typed function or a logical expression — never a non-singular query (whose nodes would be handed over one
        // by one) and never a LogicalType function result (of which only the truth is specified)
        TestFunction::Custom(name, args) => forall|i: int| 0 <= i < args@.len() ==> wf_arg(#[trigger] args@[i]) && arg_plain(args@[i]),
        TestFunction::Length(a) => wf_arg(*a) && arg_value_typed(*a),
        TestFunction::Value(a) => wf_arg(a) && !arg_logical_fn(a),
        TestFunction::Count(a) => wf_arg(a) && !arg_logical_fn(a),
        TestFunction::Search(a, b) => wf_arg(a) && wf_arg(b) && arg_value_typed(a) && arg_value_typed(b),
        TestFunction::Match(a, b) => wf_arg(a) && wf_arg(b) && arg_value_typed(a) && arg_value_typed(b),
    }
}
pub open spec fn wf_arg(a: FnArg) -> bool decreases a {
    match a {
        FnArg::Literal(l) => true,
        FnArg::Test(t) => wf_test(*t),
        FnArg::Filter(f) => wf_filter(f),
    }
}

pub open spec fn fn_is_logical(tf: TestFunction) -> bool {
    tf is Custom || tf is Search || tf is Match
}

// ---------------------------------------------------------------------------------------------
// nodelists
// ---------------------------------------------------------------------------------------------
pub open spec fn cur_node<'a, T: Queryable>(cur: &'a T) -> Node<'a, T> { Node { inner: cur, path: Seq::empty() } }
pub open spec fn root_node<'a, T: Queryable>(root: &'a T) -> Node<'a, T> { Node { inner: root, path: root_path() } }

// order-preserving sub-sequence of 0..n: the indices where `keep` holds (RFC 9535 §2.3.5: a filter
// selects the children for which the logical expression is true, in their original order)
pub open spec fn kept(n: int, keep: spec_fn(int) -> bool) -> Seq<int>
    decreases n
{
    if n <= 0 { Seq::empty() }
    else { let rest = kept(n - 1, keep); if keep(n - 1) { rest.push(n - 1) } else { rest } }
}

// descendants-or-self in document pre-order (RFC 9535 §2.5.2.2: a node is visited before its
// descendants, array elements in index order, members in member order).  `fuel` only makes the
// recursion well-founded: it is instantiated with height + 1.
pub open spec fn desc_step<'a, T: Queryable>(fuel: nat) -> spec_fn(Node<'a, T>) -> Seq<Node<'a, T>>
    decreases fuel, 1int
{
    |c: Node<'a, T>| desc_fuel(c, fuel)
}
pub open spec fn desc_fuel<'a, T: Queryable>(n: Node<'a, T>, fuel: nat) -> Seq<Node<'a, T>>
    decreases fuel, 0int
{
    if fuel == 0 { Seq::empty() }
    else { seq![n] + concat(children(n).map_values(desc_step((fuel - 1) as nat))) }
}
pub open spec fn descendants<'a, T: Queryable>(n: Node<'a, T>) -> Seq<Node<'a, T>> {
    desc_fuel(n, (n.inner.height_spec() + 1) as nat)
}

pub open spec fn rfc_sel<'a, T: Queryable>(s: Selector, n: Node<'a, T>, root: &'a T) -> Seq<Node<'a, T>>
    decreases s, 0int
{
    match s {
        Selector::Name(k) => sel_name(n, k@),
        Selector::Wildcard => sel_wildcard(n),
        Selector::Index(i) => sel_index(n, i),
        Selector::Slice(a, b, c) => sel_slice(n, a, b, c),
        Selector::Filter(f) => sel_filter(f, n, root),
    }
}
pub open spec fn sel_filter<'a, T: Queryable>(f: Filter, n: Node<'a, T>, root: &'a T) -> Seq<Node<'a, T>>
    decreases f, 1int
{
    kept(children(n).len() as int, |i: int| 0 <= i < children(n).len() && filter_truth(f, children(n)[i].inner, root))
        .map_values(|i: int| children(n)[i])
}
// named per-node functions (so that every use site builds the same term)
pub open spec fn sel_fn<'a, T: Queryable>(s: Selector, root: &'a T) -> spec_fn(Node<'a, T>) -> Seq<Node<'a, T>>
    decreases s, 2int
{
    |n: Node<'a, T>| rfc_sel(s, n, root)
}
pub open spec fn sels_fn<'a, T: Queryable>(ss: Seq<Selector>, root: &'a T) -> spec_fn(Node<'a, T>) -> Seq<Node<'a, T>>
    decreases ss, 2int
{
    |n: Node<'a, T>| rfc_sels(ss, n, root)
}
pub open spec fn desc_fn<'a, T: Queryable>() -> spec_fn(Node<'a, T>) -> Seq<Node<'a, T>> {
    |n: Node<'a, T>| descendants(n)
}
pub open spec fn rfc_sels<'a, T: Queryable>(ss: Seq<Selector>, n: Node<'a, T>, root: &'a T) -> Seq<Node<'a, T>>
    decreases ss, 0int
{
    if ss.len() == 0 { Seq::empty() } else { rfc_sels(ss.drop_last(), n, root) + rfc_sel(ss.last(), n, root) }
}
pub open spec fn rfc_seg<'a, T: Queryable>(seg: Segment, input: Seq<Node<'a, T>>, root: &'a T) -> Seq<Node<'a, T>>
    decreases seg, 0int
{
    match seg {
        Segment::Selector(s) => mapped(input, sel_fn(s, root)),
        Segment::Selectors(v) => mapped(input, sels_fn(v@, root)),
        Segment::Descendant(b) => rfc_seg(*b, mapped(input, desc_fn()), root),
    }
}
pub open spec fn rfc_segs<'a, T: Queryable>(segs: Seq<Segment>, input: Seq<Node<'a, T>>, root: &'a T) -> Seq<Node<'a, T>>
    decreases segs, 0int
{
    if segs.len() == 0 { input } else { rfc_seg(segs.last(), rfc_segs(segs.drop_last(), input, root), root) }
}
// the whole query: segments folded left to right from the root node (RFC 9535 §2.1.2)
pub open spec fn rfc_query<'a, T: Queryable>(q: JpQuery, root: &'a T) -> Seq<Node<'a, T>> {
    rfc_segs(q.segments@, seq![root_node(root)], root)
}

// ---------------------------------------------------------------------------------------------
// filters (RFC 9535 §2.3.5.2)
// ---------------------------------------------------------------------------------------------
pub open spec fn filter_truth<'a, T: Queryable>(f: Filter, cur: &'a T, root: &'a T) -> bool
    decreases f, 0int
{
    match f {
        Filter::Or(fs) => exists|i: int| 0 <= i < fs@.len() && filter_truth(#[trigger] fs@[i], cur, root),
        Filter::And(fs) => forall|i: int| 0 <= i < fs@.len() ==> filter_truth(#[trigger] fs@[i], cur, root),
        Filter::Atom(a) => atom_truth(a, cur, root),
    }
}
pub open spec fn atom_truth<'a, T: Queryable>(a: FilterAtom, cur: &'a T, root: &'a T) -> bool
    decreases a, 0int
{
    match a {
        FilterAtom::Filter { expr, not } => not != filter_truth(*expr, cur, root),
        FilterAtom::Test { expr, not } => not != test_truth(*expr, cur, root),
        FilterAtom::Comparison(c) => cmp_truth(*c, cur, root),
    }
}
// nodelist of a query used as a test / as a function argument
pub open spec fn test_nodes<'a, T: Queryable>(t: Test, cur: &'a T, root: &'a T) -> Seq<Node<'a, T>>
    decreases t, 0int
{
    match t {
        Test::RelQuery(segs) => rfc_segs(segs@, seq![cur_node(cur)], root),
        Test::AbsQuery(q) => rfc_segs(q.segments@, seq![root_node(root)], root),
        Test::Function(tf) => Seq::empty(),
    }
}
// a query is true iff it selects at least one node, whatever the node's value; a function used as
// a test must be logical-valued (match / search / extension)
pub open spec fn test_truth<'a, T: Queryable>(t: Test, cur: &'a T, root: &'a T) -> bool
    decreases t, 1int
{
    match t {
        Test::Function(tf) => fn_logical(*tf, cur, root),
        _ => test_nodes(t, cur, root).len() > 0,
    }
}

// ---------------------------------------------------------------------------------------------
// comparisons (RFC 9535 §2.3.5.2.2).  A comparable denotes Nothing (None) or one JSON value.
// json_eq / json_lt are the RFC relations on JSON values as seen through the Queryable view; they
// are abstract here and *defined* (numbers mathematically, strings by scalar value, structural
// equality) in the Kani harness / executable mirror that checks the real `eq` / `lt` against them.
// ---------------------------------------------------------------------------------------------
// kernels (abstract): the exact mathematical order of two JSON numbers, None if either is not a number
// (decided for the real code by the Kani harnesses); Unicode-scalar order of strings (std); equality of
// two values that are neither numbers nor containers as the data type's PartialEq sees it
pub uninterp spec fn num_cmp<T: Queryable>(a: T, b: T) -> Option<Ordering>;
pub uninterp spec fn str_lt(a: Seq<char>, b: Seq<char>) -> bool;
pub uninterp spec fn scalar_eq<T: Queryable>(a: T, b: T) -> bool;

// `==`: numbers by value; arrays element-wise; objects member-wise (same number of members, every member of the
// left has an equal member of the same name on the right); anything else by scalar_eq.
// json_eq is DEFINED by its one-level unfolding (axiom_json_eq_def): the unfolding recurses only into strictly
// smaller values (children_are_smaller), so exactly one relation satisfies it.  (A fuel-indexed recursive definition
// was tried first; its quantified recursive calls did not unfold reliably.)
pub uninterp spec fn json_eq<T: Queryable>(a: T, b: T) -> bool;
pub open spec fn member_match<T: Queryable>(l: Seq<(&String, &T)>, r: Seq<(&String, &T)>, i: int) -> bool {
    exists|j: int| 0 <= j < r.len() && l[i].0@ == (#[trigger] r[j]).0@ && json_eq(*l[i].1, *r[j].1)
}
pub open spec fn json_eq_unfolded<T: Queryable>(a: T, b: T) -> bool {
    match num_cmp(a, b) {
        Some(o) => o == Ordering::Equal,
        None => match (a.as_array_spec(), b.as_array_spec()) {
            (Some(x), Some(y)) => x@.len() == y@.len() && forall|i: int| 0 <= i < x@.len() ==> json_eq(#[trigger] x@[i], y@[i]),
            (None, None) => match (a.as_object_spec(), b.as_object_spec()) {
                (Some(l), Some(r)) => l.len() == r.len() && forall|i: int| 0 <= i < l.len() ==> #[trigger] member_match(l, r, i),
                (None, None) => scalar_eq(a, b),
                _ => false,
            },
            _ => false,
        },
    }
}
pub axiom fn axiom_json_eq_def<T: Queryable>(a: T, b: T)
    ensures json_eq(a, b) == json_eq_unfolded(a, b);
// `==` is symmetric (RFC 9535 2.3.5.2.2).  A property of the relation defined above, given symmetric kernels and
// objects without duplicate member names (JSON objects seen through a faithful Queryable); assumed, not proved.
pub axiom fn axiom_json_eq_symmetric<T: Queryable>(a: T, b: T)
    ensures json_eq(a, b) == json_eq(b, a);
// `<`: only between two numbers or between two strings
pub open spec fn json_lt<T: Queryable>(a: T, b: T) -> bool {
    match num_cmp(a, b) {
        Some(o) => o == Ordering::Less,
        None => match (a.as_str_spec(), b.as_str_spec()) { (Some(x), Some(y)) => str_lt(x, y), _ => false },
    }
}
pub open spec fn val_eq<T: Queryable>(a: Option<T>, b: Option<T>) -> bool {
    match (a, b) { (None, None) => true, (Some(x), Some(y)) => json_eq(x, y), _ => false }
}
pub open spec fn val_lt<T: Queryable>(a: Option<T>, b: Option<T>) -> bool {
    match (a, b) { (Some(x), Some(y)) => json_lt(x, y), _ => false }
}
pub open spec fn rfc_compare<T: Queryable>(c: Comparison, l: Option<T>, r: Option<T>) -> bool {
    match c {
        Comparison::Eq(..) => val_eq(l, r),
        Comparison::Ne(..) => !val_eq(l, r),
        Comparison::Lt(..) => val_lt(l, r),
        Comparison::Lte(..) => val_lt(l, r) || val_eq(l, r),
        Comparison::Gt(..) => val_lt(r, l),
        Comparison::Gte(..) => val_lt(r, l) || val_eq(l, r),
    }
}
pub open spec fn cmp_truth<'a, T: Queryable>(c: Comparison, cur: &'a T, root: &'a T) -> bool
    decreases c, 1int
{
    rfc_compare(c, comparable_val(cmp_lhs(c), cur, root), comparable_val(cmp_rhs(c), cur, root))
}
pub open spec fn lit_val<T: Queryable>(l: Literal) -> T {
    match l {
        Literal::Int(v) => T::from_i64_spec(v),
        Literal::Float(v) => T::from_f64_spec(v),
        Literal::String(s) => T::from_str_spec(s@),
        Literal::Bool(b) => T::from_bool_spec(b),
        Literal::Null => T::null_spec(),
    }
}
pub open spec fn sq_seg<'a, T: Queryable>(s: SingularQuerySegment, n: Node<'a, T>) -> Seq<Node<'a, T>> {
    match s { SingularQuerySegment::Index(i) => sel_index(n, i), SingularQuerySegment::Name(k) => sel_name(n, k@) }
}
pub open spec fn sq_nodes<'a, T: Queryable>(segs: Seq<SingularQuerySegment>, start: Seq<Node<'a, T>>) -> Seq<Node<'a, T>>
    decreases segs.len()
{
    if segs.len() == 0 { start } else { mapped(sq_nodes(segs.drop_last(), start), |n: Node<'a, T>| sq_seg(segs.last(), n)) }
}
pub open spec fn one_val<'a, T: Queryable>(ns: Seq<Node<'a, T>>) -> Option<T> {
    if ns.len() == 1 { Some(*ns[0].inner) } else { None }
}
pub open spec fn sq_val<'a, T: Queryable>(q: SingularQuery, cur: &'a T, root: &'a T) -> Option<T> {
    match q {
        SingularQuery::Current(v) => one_val(sq_nodes(v@, seq![cur_node(cur)])),
        SingularQuery::Root(v) => one_val(sq_nodes(v@, seq![root_node(root)])),
    }
}
pub open spec fn comparable_val<'a, T: Queryable>(c: Comparable, cur: &'a T, root: &'a T) -> Option<T>
    decreases c, 0int
{
    match c {
        Comparable::Literal(l) => Some(lit_val::<T>(l)),
        Comparable::SingularQuery(q) => sq_val(q, cur, root),
        Comparable::Function(tf) => fn_value(tf, cur, root),
    }
}

// ---------------------------------------------------------------------------------------------
// function extensions (RFC 9535 §2.4).  An argument denotes a nodelist, a value or nothing.
// ---------------------------------------------------------------------------------------------
pub enum ArgV<'a, T: Queryable> { Nodes(Seq<Node<'a, T>>), Val(T) }

pub open spec fn arg_denote<'a, T: Queryable>(a: FnArg, cur: &'a T, root: &'a T) -> ArgV<'a, T>
    decreases a, 0int
{
    match a {
        FnArg::Literal(l) => ArgV::Val(lit_val::<T>(l)),
        FnArg::Filter(f) => ArgV::Val(T::from_bool_spec(filter_truth(f, cur, root))),
        FnArg::Test(t) => match *t {
            Test::Function(tf) => if fn_is_logical(*tf) { ArgV::Val(T::from_bool_spec(fn_logical(*tf, cur, root))) } else {
                match fn_value(*tf, cur, root) { Some(v) => ArgV::Val(v), None => ArgV::Nodes(Seq::empty()) } },
            _ => ArgV::Nodes(test_nodes(*t, cur, root)),
        },
    }
}
// ValueType conversion of an argument (RFC 9535 §2.4.2): a singular nodelist gives its node's value
pub open spec fn arg_value<'a, T: Queryable>(a: ArgV<'a, T>) -> Option<T> {
    match a { ArgV::Val(v) => Some(v), ArgV::Nodes(ns) => one_val(ns) }
}
pub open spec fn arg_count<'a, T: Queryable>(a: ArgV<'a, T>) -> int {
    match a { ArgV::Val(v) => 1, ArgV::Nodes(ns) => ns.len() as int }
}
// abstract: number of Unicode scalar values == length of the char sequence; regex engine; extension hook
// match / search: the pattern text is first rewritten by prepare_regex (string code: assumed unit; the anchoring `^(?:p)$` for match is
// the bounded obligation regex.match), then compiled; an invalid pattern is no match
pub uninterp spec fn prepared_pattern(pattern: Seq<char>, search: bool) -> Seq<char>;
pub open spec fn regex_match(subject: Seq<char>, pattern: Seq<char>, search: bool) -> bool {
    let q = prepared_pattern(pattern, search);
    regex_valid(q) && (if search { re_find(q, subject) } else { re_is_match(q, subject) })
}
pub open spec fn opt_seq<A>(o: Option<A>) -> Seq<A> { match o { Some(v) => seq![v], None => Seq::<A>::empty() } }

pub open spec fn length_of<T: Queryable>(v: T) -> Option<T> {
    match (v.as_str_spec(), v.as_array_spec(), v.as_object_spec()) {
        (Some(s), _, _) => Some(T::from_i64_spec(s.len() as i64)),
        (None, Some(a), _) => Some(T::from_i64_spec(a@.len() as i64)),
        (None, None, Some(o)) => Some(T::from_i64_spec(o.len() as i64)),
        (None, None, None) => None,
    }
}
// value-typed functions: length, count, value
pub open spec fn fn_value<'a, T: Queryable>(tf: TestFunction, cur: &'a T, root: &'a T) -> Option<T>
    decreases tf, 1int
{
    match tf {
        TestFunction::Length(a) => match arg_value(arg_denote(*a, cur, root)) { Some(v) => length_of(v), None => None },
        TestFunction::Count(a) => Some(T::from_i64_spec(arg_count(arg_denote(a, cur, root)) as i64)),
        TestFunction::Value(a) => arg_value(arg_denote(a, cur, root)),
        _ => None,
    }
}
pub open spec fn str_of<T: Queryable>(v: Option<T>) -> Option<Seq<char>> {
    match v { Some(x) => x.as_str_spec(), None => None }
}
pub open spec fn custom_value<'a, T: Queryable>(name: Seq<char>, args: Seq<FnArg>, cur: &'a T, root: &'a T) -> T
    decreases args, 0int
{
    // the data type's extension hook applied to the VALUES of the arguments, in written order; an argument that denotes
    // nothing (a singular query that selects no node) contributes no value
    T::ext_spec(name, concat(Seq::new(args.len(), |i: int| if 0 <= i < args.len() { opt_seq(arg_value(arg_denote(args[i], cur, root))) } else { Seq::<T>::empty() })))
}
// logical-typed functions: match, search, extension
pub open spec fn fn_logical<'a, T: Queryable>(tf: TestFunction, cur: &'a T, root: &'a T) -> bool
    decreases tf, 1int
{
    match tf {
        TestFunction::Match(a, b) => match (str_of(arg_value(arg_denote(a, cur, root))), str_of(arg_value(arg_denote(b, cur, root)))) {
            (Some(s), Some(p)) => regex_match(s, p, false), _ => false },
        TestFunction::Search(a, b) => match (str_of(arg_value(arg_denote(a, cur, root))), str_of(arg_value(arg_denote(b, cur, root)))) {
            (Some(s), Some(p)) => regex_match(s, p, true), _ => false },
        TestFunction::Custom(name, args) => custom_value::<T>(name@, args@, cur, root).as_bool_spec() == Some(true),
        _ => false,
    }
}
