
// ===== appended by /verif (cfg(kani) / cfg(besok_jsonpath_rust_verif) only): contract harnesses for eq / lt (C04) =====
// Loop-free over the full machine domain (all i64, all finite f64): a pass is a complete proof.
#[cfg(any(kani, all(besok_jsonpath_rust_verif, feature = "vx_cmp")))]
#[allow(dead_code, unused_imports)]
pub(crate) mod verif_kani_cmp {
    use super::*;
    use crate::query::verif_k::*;

    fn any_number() -> S {
        if kani::any() { S::Int(kani::any()) } else { let f: f64 = kani::any(); kani::assume(f.is_finite()); S::Float(f) }
    }
    fn any_scalar() -> S {
        let c: u8 = kani::any();
        match c % 5 {
            0 => S::Null,
            1 => S::Bool(kani::any()),
            2 => any_number(),
            3 => S::Str(if kani::any() { "a" } else { "b" }),
            _ => S::Str(""),
        }
    }
    fn kind(s: &S) -> u8 { match s { S::Null => 0, S::Bool(_) => 1, S::Int(_) | S::Float(_) => 2, S::Str(_) => 3 } }
    /// a comparable operand: a value, a node reference, in symbolic choice
    fn operand<'a>(v: &'a S, root: &'a S) -> State<'a, S> {
        if kani::any() { State::data(root, Data::Value(*v)) } else { State::data(root, Data::Ref(Pointer::new(v, String::new()))) }
    }

    fn any_float() -> f64 { let f: f64 = kani::any(); kani::assume(f.is_finite()); f }
    fn val<'a>(v: S, root: &'a S) -> State<'a, S> { State::data(root, Data::Value(v)) }
    fn is(o: Option<Ord3>, w: Ord3) -> bool { o == Some(w) }

    // contracts eq.numbers / lt.numbers: on two numbers `==` is mathematical equality and `<` the
    // mathematical order, whatever the representation.  Split by representation to keep each query small;
    // operands of the same representation additionally range over all Value / Ref shapes.
    #[cfg_attr(kani, kani::proof)]
    #[cfg_attr(kani, kani::unwind(4))]
    pub(crate) fn num_int_int() {
        let root = S::Null;
        let (a, b) = (S::Int(kani::any()), S::Int(kani::any()));
        assert!(eq(operand(&a, &root), operand(&b, &root)) == is(math_cmp(&a, &b), Ord3::Equal));
        assert!(lt(operand(&a, &root), operand(&b, &root)) == is(math_cmp(&a, &b), Ord3::Less));
    }
    #[cfg_attr(kani, kani::proof)]
    #[cfg_attr(kani, kani::unwind(4))]
    pub(crate) fn num_float_float() {
        let root = S::Null;
        let (a, b) = (S::Float(any_float()), S::Float(any_float()));
        assert!(eq(operand(&a, &root), operand(&b, &root)) == is(math_cmp(&a, &b), Ord3::Equal));
        assert!(lt(operand(&a, &root), operand(&b, &root)) == is(math_cmp(&a, &b), Ord3::Less));
    }
    #[cfg_attr(kani, kani::proof)]
    #[cfg_attr(kani, kani::unwind(4))]
    pub(crate) fn eq_int_float() {
        let root = S::Null;
        let (a, b) = (S::Int(kani::any()), S::Float(any_float()));
        kani::cover!(math_cmp(&a, &b) == Some(Ord3::Equal));
        assert!(eq(val(a, &root), val(b, &root)) == is(math_cmp(&a, &b), Ord3::Equal));
    }
    #[cfg_attr(kani, kani::proof)]
    #[cfg_attr(kani, kani::unwind(4))]
    pub(crate) fn eq_float_int() {
        let root = S::Null;
        let (a, b) = (S::Float(any_float()), S::Int(kani::any()));
        assert!(eq(val(a, &root), val(b, &root)) == is(math_cmp(&a, &b), Ord3::Equal));
    }
    #[cfg_attr(kani, kani::proof)]
    #[cfg_attr(kani, kani::unwind(4))]
    pub(crate) fn lt_int_float() {
        let root = S::Null;
        let (a, b) = (S::Int(kani::any()), S::Float(any_float()));
        kani::cover!(math_cmp(&a, &b) == Some(Ord3::Less));
        assert!(lt(val(a, &root), val(b, &root)) == is(math_cmp(&a, &b), Ord3::Less));
    }
    #[cfg_attr(kani, kani::proof)]
    #[cfg_attr(kani, kani::unwind(4))]
    pub(crate) fn lt_float_int() {
        let root = S::Null;
        let (a, b) = (S::Float(any_float()), S::Int(kani::any()));
        assert!(lt(val(a, &root), val(b, &root)) == is(math_cmp(&a, &b), Ord3::Less));
    }
    // mixed representations through node references and in both argument orders of the dispatch
    #[cfg_attr(kani, kani::proof)]
    #[cfg_attr(kani, kani::unwind(4))]
    pub(crate) fn mixed_shapes_small() {
        let root = S::Null;
        let i: i64 = kani::any();
        kani::assume(-4 <= i && i <= 4);
        let h: i8 = kani::any();
        kani::assume(-8 <= h && h <= 8);
        let (a, b) = (S::Int(i), S::Float(h as f64 / 2.0));
        assert!(eq(operand(&a, &root), operand(&b, &root)) == is(math_cmp(&a, &b), Ord3::Equal));
        assert!(lt(operand(&a, &root), operand(&b, &root)) == is(math_cmp(&a, &b), Ord3::Less));
        assert!(lt(operand(&b, &root), operand(&a, &root)) == is(math_cmp(&b, &a), Ord3::Less));
    }
    // contract eq.types / lt.types: never equal or ordered across types; null == null; booleans by value;
    // `<` only within numbers or within strings
    #[cfg_attr(kani, kani::proof)]
    #[cfg_attr(kani, kani::unwind(4))]
    pub(crate) fn cross_types() {
        let root = S::Null;
        let (a, b) = (any_scalar(), any_scalar());
        let e = eq(operand(&a, &root), operand(&b, &root));
        let l = lt(operand(&a, &root), operand(&b, &root));
        if kind(&a) != kind(&b) {
            kani::cover!(true);
            assert!(!e);
            assert!(!l);
        } else if kind(&a) == 0 {
            assert!(e && !l);
        } else if kind(&a) == 1 {
            assert!(e == (a == b));
            assert!(!l);
        } else if kind(&a) == 3 {
            let (x, y) = (a.as_str().unwrap(), b.as_str().unwrap());
            assert!(e == (x == y));
            assert!(l == (x < y));
        }
    }
    // contract eq.nothing / lt.nothing: an empty result equals an empty result, never a value; never ordered
    #[cfg_attr(kani, kani::proof)]
    #[cfg_attr(kani, kani::unwind(4))]
    pub(crate) fn nothing() {
        let root = S::Null;
        let a = any_scalar();
        let n = || State::data(&root, Data::<S>::Nothing);
        assert!(eq(n(), n()));
        assert!(!eq(n(), operand(&a, &root)));
        assert!(!eq(operand(&a, &root), n()));
        assert!(!lt(n(), n()));
        assert!(!lt(n(), operand(&a, &root)));
        assert!(!lt(operand(&a, &root), n()));
    }
    // C15: the same contract through a second faithful view (integers visible through as_i64 only)
    #[cfg_attr(kani, kani::proof)]
    #[cfg_attr(kani, kani::unwind(4))]
    pub(crate) fn numbers_second_view() {
        let root = S2(S::Null);
        let (a, b) = (any_number(), any_number());
        let (a2, b2) = (S2(a), S2(b));
        let st = |v: S2| State::data(&root, Data::Value(v));
        assert!(eq(st(a2), st(b2)) == (math_cmp(&a, &b) == Some(Ord3::Equal)));
        assert!(lt(st(a2), st(b2)) == (math_cmp(&a, &b) == Some(Ord3::Less)));
    }
    // ---- Kani FUNCTION CONTRACT on the numeric kernel cmp_i64_f64 (modular route) ----
    // The attribute `#[cfg_attr(kani, kani::ensures(|r| verif_kani_cmp::post_cmp_i64_f64(i, f, r)))]` is inserted mechanically in front of
    // `fn cmp_i64_f64(` in the scratch copy (vx/kani.py::prepare_crate).  `contract_cmp_i64_f64` proves the real body against it for ALL
    // i64 x ALL f64 (NaN and the infinities included).  Reusing the contract at the caller (stub_verified) is not possible in Kani 0.68:
    // the return type Option<Ordering> does not implement kani::Arbitrary; the callers are therefore proved through the body (harnesses above).
    pub(crate) fn post_cmp_i64_f64(i: i64, f: f64, r: &Option<Ordering>) -> bool {
        if f.is_nan() { return r.is_none(); }
        if f == f64::INFINITY { return *r == Some(Ordering::Less); }
        if f == f64::NEG_INFINITY { return *r == Some(Ordering::Greater); }
        *r == Some(match math_cmp_i64_f64(i, f) { Ord3::Less => Ordering::Less, Ord3::Equal => Ordering::Equal, Ord3::Greater => Ordering::Greater })
    }
    #[cfg(all(kani, verif_kani_contract))]
    #[kani::proof_for_contract(cmp_i64_f64)]
    pub(crate) fn contract_cmp_i64_f64() {
        let (i, f): (i64, f64) = (kani::any(), kani::any());
        let _ = cmp_i64_f64(i, f);
    }
    /// native replay of a counterexample to the contract: the same postcondition asserted on the real function
    #[cfg(not(kani))]
    pub(crate) fn contract_cmp_i64_f64() {
        let (i, f): (i64, f64) = (kani::any(), kani::any());
        let r = cmp_i64_f64(i, f);
        assert!(post_cmp_i64_f64(i, f, &r), "cmp_i64_f64({}, {:e}) = {:?} violates its contract", i, f, r);
    }
    // vacuity canary: this harness MUST FAIL (a false claim about eq)
    #[cfg_attr(kani, kani::proof)]
    #[cfg_attr(kani, kani::unwind(4))]
    pub(crate) fn canary_must_fail() {
        let root = S::Null;
        let (a, b) = (any_number(), any_number());
        assert!(!eq(operand(&a, &root), operand(&b, &root)));
    }
    /// native replay dispatcher (see kani shim in verif_k)
    #[cfg(not(kani))]
    pub(crate) fn replay(name: &str) -> bool {
        match name {
            "num_int_int" => num_int_int(),
            "num_float_float" => num_float_float(),
            "eq_int_float" => eq_int_float(),
            "eq_float_int" => eq_float_int(),
            "lt_int_float" => lt_int_float(),
            "lt_float_int" => lt_float_int(),
            "mixed_shapes_small" => mixed_shapes_small(),
            "cross_types" => cross_types(),
            "nothing" => nothing(),
            "numbers_second_view" => numbers_second_view(),
            "canary_must_fail" => canary_must_fail(),
            "contract_cmp_i64_f64" => contract_cmp_i64_f64(),
            _ => return false,
        }
        true
    }
}
