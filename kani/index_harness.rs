
// ===== appended by /verif (cfg(kani) / cfg(besok_jsonpath_rust_verif) only): index arithmetic without precondition (C08, C11) =====
#[cfg(any(kani, all(besok_jsonpath_rust_verif, feature = "vx_sel")))]
#[allow(dead_code, unused_imports)]
pub(crate) mod verif_kani_idx {
    use super::*;
    use crate::query::verif_k::*;

    fn mk_arr(n: usize) -> &'static Vec<K> {
        let mut v = Vec::new();
        for i in 0..n { v.push(K::Int(i as i64)); }
        Box::leak(Box::new(v))
    }
    // bounded (array length <= 3), idx over the whole I-JSON range: RFC 9535 2.3.3 with pointer identity
    #[cfg_attr(kani, kani::proof)]
    #[cfg_attr(kani, kani::stub(alloc::fmt::format, stub_format))]
    #[cfg_attr(kani, kani::unwind(5))]
    pub(crate) fn index_ijson() {
        let n: usize = kani::any();
        kani::assume(n <= 3);
        let arr = mk_arr(n);
        let doc = K::Arr(arr);
        let idx: i64 = kani::any();
        kani::assume(idx >= -9007199254740991 && idx <= 9007199254740991);
        let r = process_index(Pointer::new(&doc, String::new()), &idx);
        let exp: Option<usize> = if idx >= 0 { if (idx as u64) < n as u64 { Some(idx as usize) } else { None } }
                                 else { let a = idx.unsigned_abs(); if a <= n as u64 { Some(n - a as usize) } else { None } };
        match (r, exp) {
            (Data::Ref(p), Some(i)) => { assert!(std::ptr::eq(p.inner, &arr[i])); }
            (Data::Nothing, None) => {}
            _ => { assert!(false); }
        }
    }
    // probe: which precondition is necessary?  idx over ALL of i64 — expected to FAIL at i64::MIN (`idx.abs()`):
    // the I-JSON precondition of process_index is needed, and the parser establishes it (validate_range)
    #[cfg_attr(kani, kani::proof)]
    #[cfg_attr(kani, kani::stub(alloc::fmt::format, stub_format))]
    #[cfg_attr(kani, kani::unwind(5))]
    pub(crate) fn index_any_i64_probe() {
        let n: usize = kani::any();
        kani::assume(n <= 3);
        let doc = K::Arr(mk_arr(n));
        let idx: i64 = kani::any();
        let _ = process_index(Pointer::new(&doc, String::new()), &idx);
    }
    /// native replay dispatcher (see kani shim in verif_k)
    #[cfg(not(kani))]
    pub(crate) fn replay(name: &str) -> bool {
        match name {
            "index_ijson" => index_ijson(),
            "index_any_i64_probe" => index_any_i64_probe(),
            _ => return false,
        }
        true
    }
}
