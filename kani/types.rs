
// ===== appended by /verif (cfg(kani) / cfg(besok_jsonpath_rust_verif) only): drop-free Queryable instances for Kani harnesses =====
#[cfg(any(kani, besok_jsonpath_rust_verif))]
#[allow(dead_code, unused_imports, unused_macros)]
pub(crate) mod verif_k {
    use crate::query::queryable::Queryable;

    /// scalars only; integers are also visible through as_f64 (like serde_json::Value)
    #[derive(Clone, Copy, Debug, PartialEq, Default)]
    pub enum S { #[default] Null, Bool(bool), Int(i64), Float(f64), Str(&'static str) }
    impl From<&str> for S { fn from(_s: &str) -> Self { S::Str("") } }
    impl From<String> for S { fn from(_s: String) -> Self { S::Str("") } }
    impl From<bool> for S { fn from(s: bool) -> Self { S::Bool(s) } }
    impl From<i64> for S { fn from(s: i64) -> Self { S::Int(s) } }
    impl From<f64> for S { fn from(s: f64) -> Self { S::Float(s) } }
    impl From<Vec<S>> for S { fn from(_s: Vec<S>) -> Self { S::Null } }
    impl Queryable for S {
        fn get(&self, _key: &str) -> Option<&Self> { None }
        fn as_array(&self) -> Option<&Vec<Self>> { None }
        fn as_object(&self) -> Option<Vec<(&String, &Self)>> { None }
        fn as_str(&self) -> Option<&str> { match self { S::Str(s) => Some(*s), _ => None } }
        fn as_i64(&self) -> Option<i64> { match self { S::Int(i) => Some(*i), _ => None } }
        fn as_f64(&self) -> Option<f64> { match self { S::Float(f) => Some(*f), S::Int(i) => Some(*i as f64), _ => None } }
        fn as_bool(&self) -> Option<bool> { match self { S::Bool(b) => Some(*b), _ => None } }
        fn null() -> Self { S::Null }
    }

    /// a second faithful view of the same scalars: integers are visible through as_i64 only (C15)
    #[derive(Clone, Copy, Debug, PartialEq, Default)]
    pub struct S2(pub S);
    impl From<&str> for S2 { fn from(s: &str) -> Self { S2(s.into()) } }
    impl From<String> for S2 { fn from(s: String) -> Self { S2(s.into()) } }
    impl From<bool> for S2 { fn from(s: bool) -> Self { S2(s.into()) } }
    impl From<i64> for S2 { fn from(s: i64) -> Self { S2(s.into()) } }
    impl From<f64> for S2 { fn from(s: f64) -> Self { S2(s.into()) } }
    impl From<Vec<S2>> for S2 { fn from(_s: Vec<S2>) -> Self { S2(S::Null) } }
    impl Queryable for S2 {
        fn get(&self, _key: &str) -> Option<&Self> { None }
        fn as_array(&self) -> Option<&Vec<Self>> { None }
        fn as_object(&self) -> Option<Vec<(&String, &Self)>> { None }
        fn as_str(&self) -> Option<&str> { self.0.as_str() }
        fn as_i64(&self) -> Option<i64> { self.0.as_i64() }
        fn as_f64(&self) -> Option<f64> { match self.0 { S::Float(f) => Some(f), _ => None } }
        fn as_bool(&self) -> Option<bool> { self.0.as_bool() }
        fn null() -> Self { S2(S::Null) }
    }

    /// scalars + borrowed arrays (no recursive drop glue)
    #[derive(Clone, Copy, Debug, PartialEq, Default)]
    pub enum K { #[default] Null, Int(i64), Arr(&'static Vec<K>) }
    impl From<&str> for K { fn from(_s: &str) -> Self { K::Null } }
    impl From<String> for K { fn from(_s: String) -> Self { K::Null } }
    impl From<bool> for K { fn from(_s: bool) -> Self { K::Null } }
    impl From<i64> for K { fn from(s: i64) -> Self { K::Int(s) } }
    impl From<f64> for K { fn from(_s: f64) -> Self { K::Null } }
    impl From<Vec<K>> for K { fn from(s: Vec<K>) -> Self { K::Arr(Box::leak(Box::new(s))) } }
    impl Queryable for K {
        fn get(&self, _key: &str) -> Option<&Self> { None }
        fn as_array(&self) -> Option<&Vec<Self>> { match self { K::Arr(a) => Some(*a), _ => None } }
        fn as_object(&self) -> Option<Vec<(&String, &Self)>> { None }
        fn as_str(&self) -> Option<&str> { None }
        fn as_i64(&self) -> Option<i64> { match self { K::Int(i) => Some(*i), _ => None } }
        fn as_f64(&self) -> Option<f64> { match self { K::Int(i) => Some(*i as f64), _ => None } }
        fn as_bool(&self) -> Option<bool> { None }
        fn null() -> Self { K::Null }
    }

    pub fn stub_format(_args: std::fmt::Arguments<'_>) -> String { String::new() }

    // ---- the oracle: exact mathematical order of an i64 and a finite f64, by bit decomposition ----
    // f = sign * m * 2^e with m < 2^53 an integer; everything is compared in i128, no rounding anywhere.
    #[derive(Clone, Copy, PartialEq, Debug)]
    pub enum Ord3 { Less, Equal, Greater }
    fn ord128(a: i128, b: i128) -> Ord3 { if a < b { Ord3::Less } else if a == b { Ord3::Equal } else { Ord3::Greater } }
    pub fn math_cmp_i64_f64(i: i64, f: f64) -> Ord3 {
        let bits = f.to_bits();
        let neg = (bits >> 63) != 0;
        let ef = ((bits >> 52) & 0x7ff) as i32;
        let frac = (bits & 0x000f_ffff_ffff_ffff) as i128;
        let (m, e) = if ef == 0 { (frac, -1074i32) } else { (frac | (1i128 << 52), ef - 1075) };
        if m == 0 { return ord128(i as i128, 0); }
        let sm = if neg { -m } else { m };
        if e >= 0 {
            if e > 64 { return if neg { Ord3::Greater } else { Ord3::Less }; }       // |f| >= 2^65 > |i|
            ord128(i as i128, sm << (e as u32))
        } else {
            let k = -e;
            if k >= 64 {                                                              // |f| < 2^53 / 2^64 < 1
                return if i > 0 { Ord3::Greater } else if i < 0 { Ord3::Less } else if neg { Ord3::Greater } else { Ord3::Less };
            }
            ord128((i as i128) << (k as u32), sm)
        }
    }
    pub fn math_cmp(a: &S, b: &S) -> Option<Ord3> {
        match (a, b) {
            (S::Int(x), S::Int(y)) => Some(if x < y { Ord3::Less } else if x == y { Ord3::Equal } else { Ord3::Greater }),
            (S::Int(x), S::Float(y)) => Some(math_cmp_i64_f64(*x, *y)),
            (S::Float(x), S::Int(y)) => Some(match math_cmp_i64_f64(*y, *x) { Ord3::Less => Ord3::Greater, Ord3::Equal => Ord3::Equal, Ord3::Greater => Ord3::Less }),
            // two finite floats: IEEE-754 comparison is the mathematical one (CBMC's floats are bit-precise)
            (S::Float(x), S::Float(y)) => Some(if x < y { Ord3::Less } else if x == y { Ord3::Equal } else { Ord3::Greater }),
            _ => None,
        }
    }

    // ---- native replay of a Kani counterexample: a stand-in for the `kani` crate that feeds the concrete
    // bytes Kani printed (one little-endian byte vector per kani::any()) to the SAME harness, compiled natively
    // against the real code.  An assertion that fails natively is the replayed violation.
    #[cfg(not(kani))]
    pub mod kani {
        use std::cell::RefCell;
        use std::collections::VecDeque;
        thread_local! { static Q: RefCell<VecDeque<Vec<u8>>> = RefCell::new(VecDeque::new()); }
        pub fn set_inputs(v: Vec<Vec<u8>>) { Q.with(|q| *q.borrow_mut() = v.into_iter().collect()); }
        pub trait Arb: Sized { fn from_le(b: &[u8]) -> Self; }
        impl Arb for bool { fn from_le(b: &[u8]) -> Self { b[0] & 1 == 1 } }
        impl Arb for u8 { fn from_le(b: &[u8]) -> Self { b[0] } }
        impl Arb for i8 { fn from_le(b: &[u8]) -> Self { b[0] as i8 } }
        impl Arb for i64 { fn from_le(b: &[u8]) -> Self { let mut a = [0u8; 8]; a.copy_from_slice(&b[..8]); i64::from_le_bytes(a) } }
        impl Arb for usize { fn from_le(b: &[u8]) -> Self { let mut a = [0u8; 8]; a.copy_from_slice(&b[..8]); usize::from_le_bytes(a) } }
        impl Arb for f64 { fn from_le(b: &[u8]) -> Self { let mut a = [0u8; 8]; a.copy_from_slice(&b[..8]); f64::from_le_bytes(a) } }
        pub fn any<T: Arb>() -> T {
            Q.with(|q| { let v = q.borrow_mut().pop_front().expect("replay: not enough concrete values"); T::from_le(&v) })
        }
        /// an assumption that does not hold under replay means the concrete values do not belong to this harness
        pub fn assume(c: bool) { if !c { std::panic::panic_any("replay-diverged: assumption violated"); } }
        macro_rules! __verif_cover { ($($t:tt)*) => {}; }
        pub(crate) use __verif_cover as cover;
    }
}
