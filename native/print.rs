// ===== printer: AST -> RFC 9535 query text (for the bounded checks that go THROUGH the parser) =====
pub mod print {
    use crate::parser::model::*;

    pub fn query(q: &JpQuery) -> String { format!("${}", segs(&q.segments)) }
    pub fn segs(v: &[Segment]) -> String { v.iter().map(seg).collect() }
    fn seg(s: &Segment) -> String {
        match s {
            Segment::Selector(x) => format!("[{}]", sel(x)),
            Segment::Selectors(v) => format!("[{}]", v.iter().map(sel).collect::<Vec<_>>().join(",")),
            Segment::Descendant(b) => format!("..{}", seg(b)),
        }
    }
    /// the text between the quotes of a single-quoted string literal / name selector that denotes `s` (RFC 9535 2.3.1.1)
    pub fn escape_body(s: &str) -> String {
        let mut o = String::new();
        for c in s.chars() {
            match c {
                '\'' => o.push_str("\\'"), '\\' => o.push_str("\\\\"),
                '\u{8}' => o.push_str("\\b"), '\u{c}' => o.push_str("\\f"), '\n' => o.push_str("\\n"), '\r' => o.push_str("\\r"), '\t' => o.push_str("\\t"),
                c if (c as u32) < 0x20 => o.push_str(&format!("\\u{:04X}", c as u32)),
                c => o.push(c),
            }
        }
        o
    }
    fn quote(s: &str) -> String { format!("'{}'", escape_body(s)) }
    fn sel(s: &Selector) -> String {
        match s {
            Selector::Name(t) => if t.starts_with('\'') || t.starts_with('"') { t.clone() } else { quote(t) },
            Selector::Wildcard => "*".into(),
            Selector::Index(i) => i.to_string(),
            Selector::Slice(a, b, c) => {
                let f = |x: &Option<i64>| x.map(|v| v.to_string()).unwrap_or_default();
                format!("{}:{}:{}", f(a), f(b), f(c))
            }
            Selector::Filter(f) => format!("?{}", filter(f)),
        }
    }
    pub fn filter(f: &Filter) -> String {
        match f {
            Filter::Or(v) => v.iter().map(|x| match x { Filter::Or(_) => format!("({})", filter(x)), _ => filter(x) }).collect::<Vec<_>>().join(" || "),
            Filter::And(v) => v.iter().map(|x| match x { Filter::Atom(_) => filter(x), _ => format!("({})", filter(x)) }).collect::<Vec<_>>().join(" && "),
            Filter::Atom(a) => atom(a),
        }
    }
    fn atom(a: &FilterAtom) -> String {
        match a {
            FilterAtom::Filter { expr, not } => format!("{}({})", if *not { "!" } else { "" }, filter(expr)),
            FilterAtom::Test { expr, not } => format!("{}{}", if *not { "!" } else { "" }, test(expr)),
            FilterAtom::Comparison(c) => {
                let (l, r) = c.vals();
                let op = match **c { Comparison::Eq(..) => "==", Comparison::Ne(..) => "!=", Comparison::Gt(..) => ">", Comparison::Gte(..) => ">=", Comparison::Lt(..) => "<", Comparison::Lte(..) => "<=" };
                format!("{} {} {}", comparable(l), op, comparable(r))
            }
        }
    }
    fn test(t: &Test) -> String {
        match t { Test::RelQuery(v) => format!("@{}", segs(v)), Test::AbsQuery(q) => query(q), Test::Function(tf) => func(tf) }
    }
    fn lit(l: &Literal) -> String {
        match l {
            Literal::Int(i) => i.to_string(), Literal::Float(f) => format!("{:?}", f), Literal::String(s) => quote(s),
            Literal::Bool(b) => b.to_string(), Literal::Null => "null".into(),
        }
    }
    fn comparable(c: &Comparable) -> String {
        match c {
            Comparable::Literal(l) => lit(l),
            Comparable::Function(tf) => func(tf),
            Comparable::SingularQuery(q) => {
                let (p, v) = match q { SingularQuery::Current(v) => ("@", v), SingularQuery::Root(v) => ("$", v) };
                format!("{}{}", p, v.iter().map(|s| match s { SingularQuerySegment::Index(i) => format!("[{}]", i), SingularQuerySegment::Name(n) => format!("[{}]", if n.starts_with('\'') || n.starts_with('"') { n.clone() } else { quote(n) }) }).collect::<String>())
            }
        }
    }
    fn arg(a: &FnArg) -> String { match a { FnArg::Literal(l) => lit(l), FnArg::Test(t) => test(t), FnArg::Filter(f) => filter(f) } }
    fn func(tf: &TestFunction) -> String {
        match tf {
            TestFunction::Custom(n, v) => format!("{}({})", n, v.iter().map(arg).collect::<Vec<_>>().join(", ")),
            TestFunction::Length(a) => format!("length({})", arg(a)),
            TestFunction::Value(a) => format!("value({})", arg(a)),
            TestFunction::Count(a) => format!("count({})", arg(a)),
            TestFunction::Search(a, b) => format!("search({}, {})", arg(a), arg(b)),
            TestFunction::Match(a, b) => format!("match({}, {})", arg(a), arg(b)),
        }
    }
}
