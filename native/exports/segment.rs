
// ===== appended by /verif (cfg(besok_jsonpath_rust_verif) only): access to private functions =====
#[cfg(all(besok_jsonpath_rust_verif, feature = "vx_seg"))]
pub(crate) mod verif_x {
    use super::*;
    pub(crate) fn process_descendant<T: Queryable>(data: Pointer<T>) -> Data<T> { super::process_descendant(data) }
    pub(crate) fn process_selectors<'a, T: Queryable>(step: State<'a, T>, selectors: &Vec<Selector>) -> State<'a, T> { super::process_selectors(step, selectors) }
}
