
// ===== appended by /verif (cfg(besok_jsonpath_rust_verif) only): access to private functions =====
#[cfg(all(besok_jsonpath_rust_verif, feature = "vx_fn"))]
pub(crate) mod verif_x {
    use super::*;
    pub(crate) fn regex<'a, T: Queryable>(l: State<'a, T>, r: State<'a, T>, substr: bool) -> State<'a, T> { super::regex(l, r, substr) }
}
