
// ===== appended by /verif (cfg(besok_jsonpath_rust_verif) only): access to private functions =====
#[cfg(all(besok_jsonpath_rust_verif, feature = "vx_sel"))]
pub(crate) mod verif_x {
    use super::*;
    pub(crate) fn process_slice<'a, T: Queryable>(p: Pointer<'a, T>, start: &Option<i64>, end: &Option<i64>, step: &Option<i64>) -> Data<'a, T> { super::process_slice(p, start, end, step) }
}
