
// ===== appended by /verif (cfg(besok_jsonpath_rust_verif) only): access to private functions =====
#[cfg(besok_jsonpath_rust_verif)]
pub(crate) mod verif_x {
    use super::*;
    pub(crate) fn process_slice<'a, T: Queryable>(p: Pointer<'a, T>, start: &Option<i64>, end: &Option<i64>, step: &Option<i64>) -> Data<'a, T> { super::process_slice(p, start, end, step) }
    pub(crate) fn process_wildcard<T: Queryable>(p: Pointer<T>) -> Data<T> { super::process_wildcard(p) }
    pub(crate) fn normalize_json_key(input: &str) -> String { super::normalize_json_key(input) }
}
