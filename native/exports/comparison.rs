
// ===== appended by /verif (cfg(besok_jsonpath_rust_verif) only): access to private functions =====
#[cfg(all(besok_jsonpath_rust_verif, feature = "vx_cmp"))]
pub(crate) mod verif_x {
    use super::*;
    pub(crate) fn eq<'a, T: Queryable>(l: State<'a, T>, r: State<'a, T>) -> bool { super::eq(l, r) }
    pub(crate) fn lt<'a, T: Queryable>(l: State<'a, T>, r: State<'a, T>) -> bool { super::lt(l, r) }
}
