// ===== a second Queryable implementation with a different representation (C15) =====
pub mod kjson {
    use crate::query::queryable::Queryable;
    use serde_json::Value;

    /// objects are association lists, integers are visible through as_i64 only (serde_json also shows them
    /// through as_f64), floats through as_f64 only
    #[derive(Clone, Debug, PartialEq)]
    pub enum J { Null, Bool(bool), Int(i64), Float(f64), Str(String), Arr(Vec<J>), Obj(Vec<(String, J)>) }

    // a faithful implementation may have any Default: the engine must use null(), not default(), for `null`
    impl Default for J { fn default() -> Self { J::Obj(vec![]) } }
    impl From<&str> for J { fn from(s: &str) -> Self { J::Str(s.to_string()) } }
    impl From<String> for J { fn from(s: String) -> Self { J::Str(s) } }
    impl From<bool> for J { fn from(s: bool) -> Self { J::Bool(s) } }
    impl From<i64> for J { fn from(s: i64) -> Self { J::Int(s) } }
    impl From<f64> for J { fn from(s: f64) -> Self { J::Float(s) } }
    impl From<Vec<J>> for J { fn from(s: Vec<J>) -> Self { J::Arr(s) } }

    impl Queryable for J {
        fn get(&self, key: &str) -> Option<&Self> {
            // "It is the responsibility of the implementation to handle enclosing single and double quotes"
            let key = if key.len() >= 2 && key.starts_with('\'') && key.ends_with('\'') { &key[1..key.len() - 1] }
                      else if key.len() >= 2 && key.starts_with('"') && key.ends_with('"') { &key[1..key.len() - 1] }
                      else { key };
            match self { J::Obj(m) => m.iter().find(|(k, _)| k == key).map(|(_, v)| v), _ => None }
        }
        fn as_array(&self) -> Option<&Vec<Self>> { match self { J::Arr(a) => Some(a), _ => None } }
        fn as_object(&self) -> Option<Vec<(&String, &Self)>> { match self { J::Obj(m) => Some(m.iter().map(|(k, v)| (k, v)).collect()), _ => None } }
        fn as_str(&self) -> Option<&str> { match self { J::Str(s) => Some(s), _ => None } }
        fn as_i64(&self) -> Option<i64> { match self { J::Int(i) => Some(*i), _ => None } }
        fn as_f64(&self) -> Option<f64> { match self { J::Float(f) => Some(*f), _ => None } }
        fn as_bool(&self) -> Option<bool> { match self { J::Bool(b) => Some(*b), _ => None } }
        fn null() -> Self { J::Null }
    }

    // ---- a third representation: containers behind Rc, structurally equal subtrees SHARED (one allocation reachable by several
    // paths, like YAML aliases or hash-consed documents).  An engine that identifies nodes by their address instead of their location
    // goes wrong here and nowhere else.
    use std::rc::Rc;
    #[derive(Clone, Debug, PartialEq)]
    pub enum R { Null, Bool(bool), Int(i64), Float(f64), Str(String), Arr(Rc<Vec<R>>), Obj(Rc<Vec<(String, R)>>) }
    impl Default for R { fn default() -> Self { R::Arr(Rc::new(vec![])) } }
    impl From<&str> for R { fn from(s: &str) -> Self { R::Str(s.to_string()) } }
    impl From<String> for R { fn from(s: String) -> Self { R::Str(s) } }
    impl From<bool> for R { fn from(s: bool) -> Self { R::Bool(s) } }
    impl From<i64> for R { fn from(s: i64) -> Self { R::Int(s) } }
    impl From<f64> for R { fn from(s: f64) -> Self { R::Float(s) } }
    impl From<Vec<R>> for R { fn from(s: Vec<R>) -> Self { R::Arr(Rc::new(s)) } }
    impl Queryable for R {
        fn get(&self, key: &str) -> Option<&Self> {
            let key = if key.len() >= 2 && key.starts_with('\'') && key.ends_with('\'') { &key[1..key.len() - 1] }
                      else if key.len() >= 2 && key.starts_with('"') && key.ends_with('"') { &key[1..key.len() - 1] }
                      else { key };
            match self { R::Obj(m) => m.iter().find(|(k, _)| k == key).map(|(_, v)| v), _ => None }
        }
        fn as_array(&self) -> Option<&Vec<Self>> { match self { R::Arr(a) => Some(&**a), _ => None } }
        fn as_object(&self) -> Option<Vec<(&String, &Self)>> { match self { R::Obj(m) => Some(m.iter().map(|(k, v)| (k, v)).collect()), _ => None } }
        fn as_str(&self) -> Option<&str> { match self { R::Str(s) => Some(s), _ => None } }
        fn as_i64(&self) -> Option<i64> { match self { R::Int(i) => Some(*i), _ => None } }
        fn as_f64(&self) -> Option<f64> { match self { R::Float(f) => Some(*f), _ => None } }
        fn as_bool(&self) -> Option<bool> { match self { R::Bool(b) => Some(*b), _ => None } }
        fn null() -> Self { R::Null }
    }
    /// the same JSON value with every pair of structurally equal containers sharing one allocation
    pub fn from_value_shared(v: &Value) -> R {
        fn go(v: &Value, memo: &mut std::collections::HashMap<String, R>) -> R {
            match v {
                Value::Null => R::Null,
                Value::Bool(b) => R::Bool(*b),
                Value::Number(n) => if let Some(i) = n.as_i64() { R::Int(i) } else { R::Float(n.as_f64().unwrap()) },
                Value::String(s) => R::Str(s.clone()),
                Value::Array(a) => { let key = v.to_string(); if let Some(r) = memo.get(&key) { return r.clone(); }
                                     let r = R::Arr(Rc::new(a.iter().map(|x| go(x, memo)).collect())); memo.insert(key, r.clone()); r }
                Value::Object(o) => { let key = v.to_string(); if let Some(r) = memo.get(&key) { return r.clone(); }
                                      let r = R::Obj(Rc::new(o.iter().map(|(k, x)| (k.clone(), go(x, memo))).collect())); memo.insert(key, r.clone()); r }
            }
        }
        go(v, &mut std::collections::HashMap::new())
    }

    // the public API (provided methods of the JsonPath trait) over the second implementation
    impl crate::JsonPath for J {}

    pub fn from_value(v: &Value) -> J {
        match v {
            Value::Null => J::Null,
            Value::Bool(b) => J::Bool(*b),
            Value::Number(n) => if let Some(i) = n.as_i64() { J::Int(i) } else { J::Float(n.as_f64().unwrap()) },
            Value::String(s) => J::Str(s.clone()),
            Value::Array(a) => J::Arr(a.iter().map(from_value).collect()),
            Value::Object(o) => J::Obj(o.iter().map(|(k, v)| (k.clone(), from_value(v))).collect()),
        }
    }
    /// the same JSON value, every object listing its members in the opposite order
    pub fn reverse_members(j: &J) -> J {
        match j {
            J::Arr(a) => J::Arr(a.iter().map(reverse_members).collect()),
            J::Obj(o) => J::Obj(o.iter().rev().map(|(k, v)| (k.clone(), reverse_members(v))).collect()),
            x => x.clone(),
        }
    }
    pub fn to_value(j: &J) -> Value {
        match j {
            J::Null => Value::Null,
            J::Bool(b) => Value::Bool(*b),
            J::Int(i) => Value::from(*i),
            J::Float(f) => Value::from(*f),
            J::Str(s) => Value::String(s.clone()),
            J::Arr(a) => Value::Array(a.iter().map(to_value).collect()),
            J::Obj(o) => Value::Object(o.iter().map(|(k, v)| (k.clone(), to_value(v))).collect()),
        }
    }
}
