// ===== a second Queryable implementation with a different representation (C15) =====
pub mod kjson {
    use crate::query::queryable::Queryable;
    use serde_json::Value;

    /// objects are association lists, integers are visible through as_i64 only (serde_json also shows them
    /// through as_f64), floats through as_f64 only
    #[derive(Clone, Debug, PartialEq)]
    pub enum J { Null, Bool(bool), Int(i64), Float(f64), Str(String), Arr(Vec<J>), Obj(Vec<(String, J)>) }

    // a faithful implementation may have any Default: the engine must use null(), not default(), for `null`
    impl Default for J { fn default() -> Self { J::Obj(vec![]) } }
    impl From<&str> for J { fn from(s: &str) -> Self { J::Str(s.to_string()) } }
    impl From<String> for J { fn from(s: String) -> Self { J::Str(s) } }
    impl From<bool> for J { fn from(s: bool) -> Self { J::Bool(s) } }
    impl From<i64> for J { fn from(s: i64) -> Self { J::Int(s) } }
    impl From<f64> for J { fn from(s: f64) -> Self { J::Float(s) } }
    impl From<Vec<J>> for J { fn from(s: Vec<J>) -> Self { J::Arr(s) } }

    impl Queryable for J {
        fn get(&self, key: &str) -> Option<&Self> {
            // "It is the responsibility of the implementation to handle enclosing single and double quotes"
            let key = if key.len() >= 2 && key.starts_with('\'') && key.ends_with('\'') { &key[1..key.len() - 1] }
                      else if key.len() >= 2 && key.starts_with('"') && key.ends_with('"') { &key[1..key.len() - 1] }
                      else { key };
            match self { J::Obj(m) => m.iter().find(|(k, _)| k == key).map(|(_, v)| v), _ => None }
        }
        fn as_array(&self) -> Option<&Vec<Self>> { match self { J::Arr(a) => Some(a), _ => None } }
        fn as_object(&self) -> Option<Vec<(&String, &Self)>> { match self { J::Obj(m) => Some(m.iter().map(|(k, v)| (k, v)).collect()), _ => None } }
        fn as_str(&self) -> Option<&str> { match self { J::Str(s) => Some(s), _ => None } }
        fn as_i64(&self) -> Option<i64> { match self { J::Int(i) => Some(*i), _ => None } }
        fn as_f64(&self) -> Option<f64> { match self { J::Float(f) => Some(*f), _ => None } }
        fn as_bool(&self) -> Option<bool> { match self { J::Bool(b) => Some(*b), _ => None } }
        fn null() -> Self { J::Null }
    }

    // the public API (provided methods of the JsonPath trait) over the second implementation
    impl crate::JsonPath for J {}

    pub fn from_value(v: &Value) -> J {
        match v {
            Value::Null => J::Null,
            Value::Bool(b) => J::Bool(*b),
            Value::Number(n) => if let Some(i) = n.as_i64() { J::Int(i) } else { J::Float(n.as_f64().unwrap()) },
            Value::String(s) => J::Str(s.clone()),
            Value::Array(a) => J::Arr(a.iter().map(from_value).collect()),
            Value::Object(o) => J::Obj(o.iter().map(|(k, v)| (k.clone(), from_value(v))).collect()),
        }
    }
    /// the same JSON value, every object listing its members in the opposite order
    pub fn reverse_members(j: &J) -> J {
        match j {
            J::Arr(a) => J::Arr(a.iter().map(reverse_members).collect()),
            J::Obj(o) => J::Obj(o.iter().rev().map(|(k, v)| (k.clone(), reverse_members(v))).collect()),
            x => x.clone(),
        }
    }
    pub fn to_value(j: &J) -> Value {
        match j {
            J::Null => Value::Null,
            J::Bool(b) => Value::Bool(*b),
            J::Int(i) => Value::from(*i),
            J::Float(f) => Value::from(*f),
            J::Str(s) => Value::String(s.clone()),
            J::Arr(a) => Value::Array(a.iter().map(to_value).collect()),
            J::Obj(o) => Value::Object(o.iter().map(|(k, v)| (k.clone(), to_value(v))).collect()),
        }
    }
}
