// ===== enumerators: documents and ASTs inside a stated bound =====
pub mod gen {
    use crate::parser::model::*;
    use serde_json::{json, Value};

    pub struct Rng(pub u64);
    impl Rng {
        pub fn next(&mut self) -> u64 { let mut x = self.0; x ^= x << 13; x ^= x >> 7; x ^= x << 17; self.0 = x; x }
        pub fn below(&mut self, n: usize) -> usize { (self.next() % n as u64) as usize }
    }

    pub fn leaves() -> Vec<Value> {
        vec![json!(null), json!(false), json!(true), json!(0), json!(1), json!(-1), json!(1.5), json!(1.0), json!(2),
             json!(""), json!("a"), json!("ab"), json!("b"), json!([]), json!({})]
    }
    pub const KEYS: [&str; 3] = ["a", "b", "c"];

    /// every document of depth <= 1 over the leaf set (arrays of length <= 2, objects with members from {a, b}),
    /// curated deeper documents, and `extra` random documents of depth <= 3
    pub fn docs(extra: usize, seed: u64) -> Vec<Value> {
        let l = leaves();
        // curated documents first: they are evaluated against EVERY query also in the quick tier (see ALWAYS)
        let mut out: Vec<Value> = curated();
        out.extend(l.clone());
        for x in &l { out.push(json!([x])); out.push(json!({"a": x})); out.push(json!({"b": x})); }
        for x in &l { for y in &l { out.push(json!([x, y])); out.push(json!({"a": x, "b": y})); } }
        let mut rng = Rng(seed.wrapping_mul(0x9E3779B97F4A7C15) | 1);
        for _ in 0..extra { out.push(random_doc(&mut rng, 3)); }
        out
    }
    /// number of leading documents that every query is evaluated on in the quick tier
    pub fn always() -> usize { static N: std::sync::OnceLock<usize> = std::sync::OnceLock::new(); *N.get_or_init(|| curated().len() + leaves().len()) }
    /// the curated documents before the deep / shared ones added in round 5
    pub fn always_small() -> usize { static N: std::sync::OnceLock<usize> = std::sync::OnceLock::new(); *N.get_or_init(|| curated_small().len()) }
    /// `depth` nested containers (objects under "a" and arrays, alternating) around a small tree with sibling subtrees
    pub fn deep_doc(depth: usize) -> Value {
        let mut v = json!({"v": 1, "w": {"v": 2, "a": [3]}, "a": {"v": 4}, "x": [{"v": 5}, 6]});
        for i in 0..depth { v = if i % 3 == 2 { json!([v]) } else { json!({"a": v}) }; }
        v
    }
    pub fn curated() -> Vec<Value> {
        let mut c = curated_small();
        // round 5: documents nested far deeper than any parser limit (a Value built in code), with several sibling subtrees at the bottom
        c.push(deep_doc(70));
        c.push(deep_doc(200));
        // shapes that a JSON pointer resolves differently from JSONPath (names on arrays, indexes on objects, `/` in names)
        c.push(json!(["zero", "one", "zero", {"0": "zero"}]));
        c.push(json!({"a": {"0": "x", "1": "y"}, "0": "x", "1": "y", "a/b": 2, "b": "x", "c": {"b": 1}}));
        // structurally equal containers at several places (shared allocations in the Rc-based third implementation)
        c.push(json!({"p": {"retries": 3, "k": [1, 2]}, "q": {"retries": 3, "k": [1, 2]}, "r": [{"k": [1, 2]}, {"retries": 3, "k": [1, 2]}], "a": {"k": [1, 2]}}));
        c.push(json!([[1, 2], [1, 2], [[1, 2]], {"a": [1, 2], "b": [1, 2]}]));
        c.push(json!([{"a": {"p": [1], "q": [1]}, "b": {"p": [1], "q": [2]}}, {"a": {"p": [1], "q": [1]}, "b": {"p": [1], "q": [1]}}, {"a": {"p": [1], "q": [1]}, "b": {"p": [2], "q": [1]}}]));
        c
    }
    pub fn curated_small() -> Vec<Value> {
        vec![
            json!([[{"a": 1}], [{"b": 1}]]),
            json!([{"a": []}, {"a": {}}, {"a": ""}, {"b": 1}]),
            json!([{"a": 1, "b": 2}, {"a": 3, "b": 4}]),
            json!({"a": {"a": {"a": 1}}, "b": [1, [2, [3]]]}),
            json!([[1, 2, 3], [4, 5, 6], [7, 8, 9]]),
            json!([0, 1, 2, 3, 4, 5]),
            json!({"a": [1], "b": [1.0]}),
            json!({"a": {"x": 1}, "b": {"x": 1.0}}),
            json!([1, 1, 1.0, "1", [1], {"a": 1}]),
            json!([2e-20, 1e-20, 0.1, 0.30000000000000004]),
            json!([9007199254740992i64, 9007199254740993i64, 9007199254740992.0]),
            json!([i64::MAX, i64::MIN, 9223372036854775807.0, -9223372036854775808.0]),
            json!(["ab", "xb", "ax", "a", "b", "", "é", "𝄞", "a\nb"]),
            json!([{"a": "a"}, {"a": "b"}, {"a": 1}, {"a": null}, {"b": "a"}, "a", 1]),
            json!({"a": [{"a": 1, "b": [1, 2]}, {"a": 2, "b": []}], "b": {"a": [3, 4]}}),
            json!({"a'b": 1, "e\nf": 3, "a b": 4, "\\": 5, "'q'": 6, "\"d\"": 7, "é": 8, "0": 9, "": 10}),
            json!([{"a": {"b": {"c": 1}}}, {"a": {"b": {"c": 2}}}, {"a": {"b": 1}}]),
            json!([[[1]], [[]], []]),
            json!({"a": 1, "b": {"a": 2, "b": {"a": 3}}}),
            json!([{"ключ": 1}, {"k": [2]}, {"é": {"é": [1, {"𝄞": 2}]}}]),
            json!({"é": {"k": 1}, "𝄞": {"k": [1, 2]}, "k": {"☺": {"k": 3}}}),
            json!([{"a": false}, {"a": null}, {"a": 0}, {"b": false}, [false], [null], false, null]),
            json!({"a": {"a": 1}, "b": {"a": {"a": 2}}}),
            json!([[3, 1, 2], [1], [], [5, 4]]),
            json!([{"ключ": 1}, {"k": [2]}]),
            json!({"a\u{7f}b": 1, "a/b": 1, "k": {"a/b": 2}}),
            json!([{"a/b": 1}, {"a/b": 2}, {"a": [9, 3, 9], "b": []}, {"a": [1, 2]}]),
            json!([[1, 2, 3], [3, 2, 1], [1], [], [1, 1]]),
            json!(["x", "y", "x", "x"]),
            json!([0, 1, 2, 3, 4, 5, 6, 7, 8, 9, 10, 11]),
            json!({"ä": {"ö": [1, {"ü": 2}], "k": 3}, "z": [{"ß": {"k": 4}}, 5]}),
            json!([18446744073709551615u64, 18446744073709551614u64, 1]),
            json!([0, 1, 2, 3, 4, 5, 6]),
            json!({"a": 1, "a b": 2, "a#": 3, "a!": {"a": 1, "a$": 2, "a ": 3}, "ab": {"b": 1}, "a/b": 5}),
        ]
    }
    pub fn random_doc(rng: &mut Rng, depth: usize) -> Value {
        let l = leaves();
        let c = rng.below(if depth == 0 { 1 } else { 3 });
        match c {
            0 => l[rng.below(l.len())].clone(),
            1 => { let n = rng.below(4); Value::Array((0..n).map(|_| random_doc(rng, depth - 1)).collect()) }
            _ => {
                let mut m = serde_json::Map::new();
                for k in KEYS { if rng.below(2) == 0 { m.insert(k.to_string(), random_doc(rng, depth - 1)); } }
                Value::Object(m)
            }
        }
    }

    // ---- AST menus (built directly, never through the parser) ----
    fn rel(segs: Vec<Segment>) -> Test { Test::RelQuery(segs) }
    fn name(s: &str) -> Segment { Segment::Selector(Selector::Name(s.to_string())) }
    fn t(test: Test) -> Filter { Filter::Atom(FilterAtom::Test { expr: Box::new(test), not: false }) }
    fn nt(test: Test) -> Filter { Filter::Atom(FilterAtom::Test { expr: Box::new(test), not: true }) }
    fn cmp(c: Comparison) -> Filter { Filter::Atom(FilterAtom::Comparison(Box::new(c))) }
    fn cur(segs: Vec<SingularQuerySegment>) -> Comparable { Comparable::SingularQuery(SingularQuery::Current(segs)) }
    fn rootq(segs: Vec<SingularQuerySegment>) -> Comparable { Comparable::SingularQuery(SingularQuery::Root(segs)) }
    fn sn(s: &str) -> SingularQuerySegment { SingularQuerySegment::Name(s.to_string()) }
    fn lit_i(i: i64) -> Comparable { Comparable::Literal(Literal::Int(i)) }
    fn lit_f(f: f64) -> Comparable { Comparable::Literal(Literal::Float(f)) }
    fn lit_s(s: &str) -> Comparable { Comparable::Literal(Literal::String(s.to_string())) }
    fn arg_rel(segs: Vec<Segment>) -> FnArg { FnArg::Test(Box::new(rel(segs))) }
    fn arg_s(s: &str) -> FnArg { FnArg::Literal(Literal::String(s.to_string())) }

    // ---- C14: extension functions (in / nin / none_of / any_of / subset_of) ----
    pub const EXT_NAMES: [&str; 6] = ["in", "nin", "none_of", "any_of", "subset_of", "foo"];
    pub fn ext_docs() -> Vec<Value> {
        vec![
            json!({"elems": [1, "a", null, [1], {"a": 1}, [1, 2], [], 2.5, true, "b", [[1]]], "list": [1, "a", [1], null]}),
            json!({"elems": [[1, 2], [2, 3], [], [1], [4], ["a"], [[1]], 1, [1, [1]], [null], [2, 2]], "list": [1, 2, [1]]}),
            json!([{"a": 1, "b": [1, 2]}, {"a": 3, "b": [1, 2]}, {"a": [1], "b": [[1], 2]}, {"a": [], "b": []}, {"a": [1, 2], "b": [2, 1, 0]}, {"b": [1]}, {"a": 1},
                   {"a": 1, "b": 1}, {"a": [1, 1], "b": [1]}, {"a": [1, 3], "b": [1]}, {"a": [], "b": 7}, {"a": {"k": 1}, "b": [{"k": 1}]}, {"a": "x", "b": ["x", "y"]}, {"a": null, "b": [null]}]),
            json!({"list": [], "elems": [1, [], [1]]}),
            json!({"list": [1.5, 2.0, 3.25], "elems": [2.0, 2.5, [2.0], 1.5]}),
            json!({"list": [1, 2, 3], "elems": [2, 2.5, [2]]}),
            json!({"list": 3, "elems": [1, [1], 3]}),
            json!({"list": {"a": 1}, "elems": [1, [1], {"a": 1}]}),
            json!({"elems": {"x": 1, "y": [1], "z": "a"}, "list": [1, "a"]}),
            json!([1, 2]), json!(null), json!({"elems": [1]}),
        ]
    }
    /// filters whose atom is one extension-function call with VALUE arguments (literals, singular queries, logical expressions), plain and negated
    pub fn ext_filters() -> Vec<Filter> {
        let abs = |n: &str| FnArg::Test(Box::new(Test::AbsQuery(JpQuery::new(vec![name(n)]))));
        let absq = |segs: Vec<Segment>| FnArg::Test(Box::new(Test::AbsQuery(JpQuery::new(segs))));
        let arglists: Vec<Vec<FnArg>> = vec![
            vec![arg_rel(vec![]), abs("list")],                         // f(@, $.list)
            vec![arg_rel(vec![name("a")]), arg_rel(vec![name("b")])],   // f(@.a, @.b)
            vec![arg_rel(vec![name("b")]), arg_rel(vec![name("a")])],   // f(@.b, @.a)
            vec![arg_rel(vec![]), abs("missing")],                      // second argument missing
            vec![arg_rel(vec![name("zz")]), abs("list")],               // first argument missing
            vec![arg_rel(vec![name("zz")]), abs("missing")],            // both missing
            vec![arg_rel(vec![])],                                      // one argument
            vec![],                                                     // none
            vec![arg_rel(vec![]), abs("list"), abs("list")],            // three
            vec![FnArg::Literal(Literal::Int(1)), abs("list")],         // f(1, $.list)
            vec![arg_s("a"), abs("list")],                              // f('a', $.list)
            vec![FnArg::Literal(Literal::Null), abs("list")],           // f(null, $.list)
            vec![FnArg::Literal(Literal::Float(2.0)), abs("list")],     // f(2.0, $.list)   (a whole-valued float is a float)
            vec![FnArg::Literal(Literal::Float(2.5)), abs("list")],     // f(2.5, $.list)
            vec![FnArg::Literal(Literal::Int(2)), abs("list")],         // f(2, $.list)
            vec![arg_rel(vec![]), arg_s("a")],                          // second argument a string
            vec![abs("list"), arg_rel(vec![])],                         // f($.list, @)
            vec![abs("list"), abs("list")],                             // f($.list, $.list)
            vec![arg_rel(vec![Segment::Selector(Selector::Index(0))]), abs("list")],   // f(@[0], $.list)
            vec![arg_rel(vec![]), arg_rel(vec![])],                     // f(@, @)
            vec![FnArg::Filter(Filter::Atom(FilterAtom::Comparison(Box::new(Comparison::Eq(cur(vec![]), lit_i(1)))))), abs("list")],   // f(@ == 1, $.list)
            // arguments written as NON-singular queries that select no node (a missing argument) or exactly one (that node's value);
            // evaluations in which such an argument selects several nodes are not compared (mirror: ext_multi)
            vec![arg_rel(vec![]), absq(vec![Segment::Descendant(Box::new(name("blocked")))])],                                   // f(@, $..blocked)
            vec![absq(vec![Segment::Descendant(Box::new(name("blocked")))]), arg_rel(vec![])],                                   // f($..blocked, @)
            vec![arg_rel(vec![]), absq(vec![Segment::Descendant(Box::new(name("list")))])],                                      // f(@, $..list)
            vec![arg_rel(vec![]), absq(vec![name("list"), Segment::Selector(Selector::Filter(cmp(Comparison::Eq(cur(vec![]), lit_s("nope")))))])],   // f(@, $.list[?@ == 'nope'])
            vec![arg_rel(vec![Segment::Selector(Selector::Wildcard)]), abs("list")],                                                // f(@.*, $.list)
            vec![arg_rel(vec![Segment::Selector(Selector::Slice(Some(5), None, None))]), abs("list")],                             // f(@[5:], $.list)
        ];
        let mut out = vec![];
        for n in EXT_NAMES {
            for a in &arglists {
                let tf = Test::Function(Box::new(TestFunction::Custom(n.to_string(), a.clone())));
                out.push(t(tf.clone()));
                out.push(nt(tf));
            }
        }
        out
    }

    pub fn atoms() -> Vec<Filter> {
        use Comparison::*;
        vec![
            t(rel(vec![name("a")])),                                       // @.a
            nt(rel(vec![name("a")])),                                      // !@.a
            t(rel(vec![name("a"), name("b")])),                            // @.a.b
            t(rel(vec![Segment::Selector(Selector::Wildcard)])),            // @.*
            t(rel(vec![Segment::Selector(Selector::Index(0))])),            // @[0]
            t(Test::AbsQuery(JpQuery::new(vec![name("a")]))),               // $.a
            t(rel(vec![Segment::Descendant(Box::new(name("a")))])),         // @..a
            cmp(Eq(cur(vec![]), lit_i(1))),                                 // @ == 1
            cmp(Ne(cur(vec![]), lit_i(1))),                                 // @ != 1
            cmp(Lt(cur(vec![]), lit_i(1))),                                 // @ < 1
            cmp(Lte(cur(vec![]), lit_f(1.0))),                              // @ <= 1.0
            cmp(Gt(cur(vec![]), lit_i(0))),                                 // @ > 0
            cmp(Gte(cur(vec![]), lit_s("a"))),                              // @ >= 'a'
            cmp(Eq(cur(vec![sn("a")]), cur(vec![sn("b")]))),                // @.a == @.b
            cmp(Lt(cur(vec![sn("a")]), cur(vec![sn("b")]))),                // @.a < @.b
            cmp(Eq(cur(vec![sn("a")]), rootq(vec![sn("a")]))),              // @.a == $.a
            cmp(Eq(cur(vec![]), rootq(vec![SingularQuerySegment::Index(0)]))), // @ == $[0]
            t(rel(vec![Segment::Selectors(vec![Selector::Name("a".into()), Selector::Name("zz".into())])])),   // @['a','zz']  (a hit, then a miss)
            t(rel(vec![Segment::Selectors(vec![Selector::Name("zz".into()), Selector::Name("b".into())])])),   // @['zz','b']
            t(Test::AbsQuery(JpQuery::new(vec![Segment::Selectors(vec![Selector::Name("a".into()), Selector::Name("zz".into())])]))), // $['a','zz']
            t(rel(vec![Segment::Selector(Selector::Wildcard), name("a")])),   // @.*.a   (the first intermediate node may lead nowhere)
            t(rel(vec![Segment::Selector(Selector::Slice(Some(0), Some(3), None)), name("a")])), // @[0:3].a
            cmp(Eq(cur(vec![sn("'a\\/b'")]), lit_i(1))),                       // @['a\/b'] == 1
            cmp(Eq(cur(vec![]), lit_f(1e19))),                                 // @ == 1e19
            cmp(Lt(cur(vec![]), lit_f(1e20))),                                 // @ < 1e20
            cmp(Eq(cur(vec![SingularQuerySegment::Index(-2)]), lit_i(1))),     // @[-2] == 1
            cmp(Eq(cur(vec![SingularQuerySegment::Index(0)]), lit_i(1))),   // @[0] == 1
            cmp(Eq(cur(vec![SingularQuerySegment::Index(-1)]), lit_i(1))),  // @[-1] == 1
            cmp(Eq(cur(vec![]), lit_s("a"))),                               // @ == 'a'
            cmp(Lt(cur(vec![]), lit_s("b"))),                               // @ < 'b'
            cmp(Eq(cur(vec![]), Comparable::Literal(Literal::Null))),       // @ == null
            cmp(Eq(cur(vec![]), Comparable::Literal(Literal::Bool(true)))), // @ == true
            cmp(Eq(cur(vec![sn("a")]), Comparable::Literal(Literal::Null))),// @.a == null  (missing is not null)
            cmp(Eq(Comparable::Function(TestFunction::Count(arg_rel(vec![Segment::Selector(Selector::Wildcard)]))), lit_i(0))),  // count(@.*) == 0
            cmp(Eq(Comparable::Function(TestFunction::Count(arg_rel(vec![name("a")]))), lit_i(1))),                               // count(@.a) == 1
            cmp(Gte(Comparable::Function(TestFunction::Length(Box::new(arg_rel(vec![])))), lit_i(2))),                            // length(@) >= 2
            cmp(Eq(Comparable::Function(TestFunction::Length(Box::new(arg_rel(vec![name("a")])))), lit_i(0))),                    // length(@.a) == 0
            cmp(Eq(Comparable::Function(TestFunction::Value(arg_rel(vec![Segment::Selector(Selector::Wildcard)]))), lit_i(1))),   // value(@.*) == 1
            t(Test::Function(Box::new(TestFunction::Match(arg_rel(vec![]), arg_s("a|b"))))),                                      // match(@, 'a|b')
            t(Test::Function(Box::new(TestFunction::Search(arg_rel(vec![]), arg_s("a"))))),                                       // search(@, 'a')
            t(Test::Function(Box::new(TestFunction::Match(arg_rel(vec![name("a")]), arg_s("[ab]"))))),                            // match(@.a, '[ab]')
            nt(Test::Function(Box::new(TestFunction::Match(arg_rel(vec![]), arg_s("a."))))),                                      // !match(@, 'a.')
            cmp(Eq(Comparable::Function(TestFunction::Length(Box::new(arg_rel(vec![])))), lit_f(2.0))),                           // length(@) == 2.0
            cmp(Lte(Comparable::Function(TestFunction::Count(arg_rel(vec![Segment::Selector(Selector::Wildcard)]))), lit_f(2.0))), // count(@.*) <= 2.0
            cmp(Eq(Comparable::Function(TestFunction::Value(arg_rel(vec![name("a"), Segment::Selector(Selector::Filter(cmp(Gt(cur(vec![]), lit_i(5)))))]))), cur(vec![sn("zz")]))), // value(@.a[?@ > 5]) == @.zz
            cmp(Eq(Comparable::Function(TestFunction::Value(arg_rel(vec![name("a"), Segment::Selector(Selector::Slice(Some(0), Some(0), None))]))), cur(vec![sn("b")]))),           // value(@.a[0:0]) == @.b
            cmp(Eq(Comparable::Function(TestFunction::Count(arg_rel(vec![Segment::Selectors(vec![Selector::Name("a".into()), Selector::Name("a".into())])]))), lit_i(2))),            // count(@['a','a']) == 2  (a node selected twice counts twice)
            cmp(Eq(Comparable::Function(TestFunction::Count(arg_rel(vec![Segment::Selectors(vec![Selector::Index(0), Selector::Index(0)])]))), lit_i(2))),                            // count(@[0,0]) == 2
            cmp(Gte(Comparable::Function(TestFunction::Count(arg_rel(vec![Segment::Selectors(vec![Selector::Wildcard, Selector::Index(-1)])]))), lit_i(3))),                          // count(@[*,-1]) >= 3
            cmp(Eq(cur(vec![sn("'a\\'b'")]), lit_i(1))),                                                                                                                              // @['a\'b'] == 1  (escaped quote)
            t(rel(vec![name("\"'q'\"")])),
            t(rel(vec![name("'a\\/b'")])),                                                                                                                                              // @['a\/b']  (bare existence test, escaped solidus in the name)
            nt(rel(vec![name("'a\\/b'")])),                                                                                                                                             // !@['a\/b']
            // round 5: `<=` / `>=` between operands that are equal but not ordered (booleans, null, containers, two empty results), literal on the LEFT
            // of every operator, literal FIRST arguments of functions
            cmp(Eq(cur(vec![]), rootq(vec![sn("0")]))),                        // @ == $['0']   (a NAME applied to an array selects nothing)
            cmp(Eq(cur(vec![]), rootq(vec![sn("a"), SingularQuerySegment::Index(0)]))),   // @ == $.a[0]   (an INDEX applied to an object selects nothing)
            cmp(Eq(cur(vec![]), rootq(vec![sn("a/b")]))),                      // @ == $['a/b']
            cmp(Eq(cur(vec![]), rootq(vec![sn("1")]))),                        // @ == $['1']
            cmp(Lte(cur(vec![]), Comparable::Literal(Literal::Bool(true)))),   // @ <= true
            cmp(Gte(cur(vec![]), Comparable::Literal(Literal::Null))),         // @ >= null
            cmp(Lte(cur(vec![sn("a")]), cur(vec![sn("b")]))),                  // @.a <= @.b
            cmp(Gte(cur(vec![sn("a")]), cur(vec![sn("b")]))),                  // @.a >= @.b
            cmp(Gte(cur(vec![sn("zz")]), rootq(vec![sn("zz")]))),              // @.zz >= $.zz   (nothing on both sides)
            cmp(Lte(cur(vec![]), cur(vec![]))),                                // @ <= @
            cmp(Lt(lit_i(1), cur(vec![]))),                                    // 1 < @
            cmp(Lte(lit_i(1), cur(vec![]))),                                   // 1 <= @
            cmp(Gt(lit_i(1), cur(vec![]))),                                    // 1 > @
            cmp(Gte(lit_i(1), cur(vec![]))),                                   // 1 >= @
            cmp(Lte(lit_i(2), cur(vec![sn("a")]))),                            // 2 <= @.a
            cmp(Gte(lit_f(1.5), cur(vec![sn("a")]))),                          // 1.5 >= @.a
            cmp(Ne(lit_i(1), cur(vec![]))),                                    // 1 != @
            cmp(Lte(lit_i(1), Comparable::Function(TestFunction::Count(arg_rel(vec![Segment::Selector(Selector::Wildcard)]))))),   // 1 <= count(@.*)
            cmp(Gte(lit_i(2), Comparable::Function(TestFunction::Length(Box::new(arg_rel(vec![])))))),                           // 2 >= length(@)
            cmp(Lt(lit_s("a"), cur(vec![]))),                                  // 'a' < @
            cmp(Eq(Comparable::Function(TestFunction::Length(Box::new(arg_s("abc")))), lit_i(3))),                                // length('abc') == 3
            cmp(Eq(Comparable::Function(TestFunction::Length(Box::new(arg_rel(vec![])))), Comparable::Function(TestFunction::Length(Box::new(arg_s("\u{436}\u{416}")))))),   // length(@) == length('жЖ')
            t(Test::Function(Box::new(TestFunction::Search(arg_s("hello world ab"), arg_rel(vec![]))))),                          // search('hello world ab', @)
            t(Test::Function(Box::new(TestFunction::Match(arg_s("ab"), arg_rel(vec![]))))),                                       // match('ab', @)
            nt(Test::Function(Box::new(TestFunction::Match(arg_s("a"), arg_rel(vec![name("a")]))))),                              // !match('a', @.a)
            t(Test::AbsQuery(JpQuery::new(vec![name("a"), name("b")]))),                                                                                                               // $.a.b
            t(Test::AbsQuery(JpQuery::new(vec![name("ab")]))),                                                                                                                         // $.ab   (prints like $.a.b in a careless Display)                                                                                                                                           // @["'q'"]  (a member whose name is enclosed in quotes)
        ]
    }
    /// logical formulas over atoms: every atom, and !, &&, || combinations with <= 3 atoms (seeded sample of the pairs/triples)
    pub fn filters(rng: &mut Rng, n_combo: usize) -> Vec<Filter> {
        let a = atoms();
        let mut out = a.clone();
        // the plain negation of every atom
        out.extend(a.iter().map(|f| Filter::Atom(FilterAtom::Filter { expr: Box::new(f.clone()), not: true })));
        let pick = |rng: &mut Rng| a[rng.below(a.len())].clone();
        for _ in 0..n_combo {
            let (x, y, z) = (pick(rng), pick(rng), pick(rng));
            match rng.below(9) {
                6 => out.push(Filter::And(vec![x, Filter::Or(vec![y, z])])),          // AST only: an Or directly under an And (the parser always wraps it)
                7 => out.push(Filter::And(vec![Filter::And(vec![x, y]), z])),
                8 => out.push(Filter::Or(vec![Filter::Or(vec![x, y]), z])),
                0 => out.push(Filter::Or(vec![x, y])),
                1 => out.push(Filter::And(vec![x, y])),
                2 => out.push(Filter::Atom(FilterAtom::Filter { expr: Box::new(Filter::Or(vec![x, y])), not: true })),
                3 => out.push(Filter::Or(vec![Filter::And(vec![x, y]), z])),                      // x && y || z
                4 => out.push(Filter::And(vec![x, Filter::Atom(FilterAtom::Filter { expr: Box::new(Filter::Or(vec![y, z])), not: false })])), // x && (y || z)
                _ => out.push(Filter::Atom(FilterAtom::Filter { expr: Box::new(Filter::And(vec![x, y])), not: true })),
            }
        }
        // filters nested inside filter queries: @[?f], @.*[?f], $[?f]
        for f in a.iter().take(8) {
            out.push(t(rel(vec![Segment::Selector(Selector::Filter(f.clone()))])));
            out.push(t(rel(vec![Segment::Selector(Selector::Wildcard), Segment::Selector(Selector::Filter(f.clone()))])));
            out.push(t(Test::AbsQuery(JpQuery::new(vec![Segment::Selector(Selector::Filter(f.clone()))]))));
        }
        out
    }
    pub fn plain_selectors() -> Vec<Selector> {
        let big = 9007199254740991i64;
        vec![
            Selector::Name("a".into()), Selector::Name("b".into()), Selector::Name("'a'".into()),
            Selector::Name("\"'q'\"".into()), Selector::Name("'a\\'b'".into()),
            Selector::Wildcard,
            Selector::Index(0), Selector::Index(1), Selector::Index(-1), Selector::Index(-2), Selector::Index(big), Selector::Index(-big),
            Selector::Slice(None, None, None), Selector::Slice(Some(1), None, None), Selector::Slice(None, Some(1), None),
            Selector::Slice(None, None, Some(-1)), Selector::Slice(Some(-1), Some(0), Some(-1)), Selector::Slice(Some(0), Some(3), Some(2)),
            Selector::Slice(None, None, Some(0)), Selector::Slice(Some(-big), Some(big), Some(1)), Selector::Slice(Some(1), Some(-1), None),
            Selector::Slice(None, None, Some(-2)), Selector::Slice(None, None, Some(2)), Selector::Slice(Some(5), None, Some(-2)), Selector::Slice(Some(-8), None, Some(2)),
            Selector::Slice(Some(4), Some(1), None), Selector::Slice(Some(0), None, Some(-1)), Selector::Slice(None, Some(-9), Some(-3)),
        ]
    }
    pub fn segments(filters: &[Filter], rng: &mut Rng, n_union: usize) -> Vec<Segment> {
        let mut sels = plain_selectors();
        sels.extend(filters.iter().map(|f| Selector::Filter(f.clone())));
        let mut out: Vec<Segment> = sels.iter().map(|s| Segment::Selector(s.clone())).collect();
        for s in plain_selectors().into_iter().take(8) { out.push(Segment::Descendant(Box::new(Segment::Selector(s)))); }
        for f in filters.iter().take(6) { out.push(Segment::Descendant(Box::new(Segment::Selector(Selector::Filter(f.clone()))))); }
        for _ in 0..n_union {
            let (x, y) = (sels[rng.below(sels.len())].clone(), sels[rng.below(sels.len())].clone());
            if rng.below(4) == 0 { out.push(Segment::Descendant(Box::new(Segment::Selectors(vec![x, y])))); }
            else { out.push(Segment::Selectors(vec![x, y])); }
        }
        out
    }
}
