// ===== bounded contract evaluation of the real functions (DESIGN.md 3.3) =====
pub mod checks {
    use super::gen::*;
    use super::kjson::*;
    use super::mirror::*;
    use super::print;
    use crate::parser::model::*;
    use crate::query::queryable::Queryable;
    use crate::query::state::{Data, Pointer, State};
    use crate::query::{js_path, js_path_process, QueryRef};
    use serde_json::{json, Value};
    use std::collections::BTreeMap;
    use std::panic::{catch_unwind, AssertUnwindSafe};

    #[derive(Default)]
    pub struct Report {
        pub group: String,
        pub evaluations: u64,
        pub nontrivial: u64,
        pub failures: BTreeMap<String, (u64, Vec<Value>)>,   // obligation|features -> (count, first witnesses)
        pub samples: Vec<Value>,
        pub only: Option<(usize, usize)>,
        /// set when the group could not be compiled against this tree (it calls private functions whose signature changed)
        pub unavailable: Option<String>,
    }
    impl Report {
        pub fn new(group: &str) -> Self { Report { group: group.to_string(), ..Default::default() } }
        pub fn unavailable(group: &str, bucket: &str) -> Self { Report { group: group.to_string(), unavailable: Some(bucket.to_string()), ..Default::default() } }
        pub fn fail(&mut self, obligation: &str, features: &[String], w: Value) {
            let key = format!("{}|{}", obligation, features.join(","));
            let e = self.failures.entry(key).or_insert((0, vec![]));
            e.0 += 1;
            if e.1.len() < 3 { e.1.push(w); }
        }
        /// like `fail`, but the witness (which may print a large document and long path lists) is only built when it is going to be kept
        pub fn fail_with(&mut self, obligation: &str, features: &[String], w: impl FnOnce() -> Value) {
            let key = format!("{}|{}", obligation, features.join(","));
            let e = self.failures.entry(key).or_insert((0, vec![]));
            e.0 += 1;
            if e.1.len() < 3 { e.1.push(w()); }
        }
        pub fn merge(&mut self, o: Report) {
            self.evaluations += o.evaluations;
            self.nontrivial += o.nontrivial;
            for (k, (n, w)) in o.failures {
                let e = self.failures.entry(k).or_insert((0, vec![]));
                e.0 += n;
                for x in w { if e.1.len() < 3 { e.1.push(x); } }
            }
            for x in o.samples { if self.samples.len() < 6 { self.samples.push(x); } }
        }
        pub fn to_json(&self) -> Value {
            let f: Vec<Value> = self.failures.iter().map(|(k, (n, w))| {
                let mut it = k.splitn(2, '|');
                let (o, fe) = (it.next().unwrap(), it.next().unwrap_or(""));
                json!({"obligation": o, "features": fe.split(',').filter(|s| !s.is_empty()).collect::<Vec<_>>(), "count": n, "witnesses": w})
            }).collect();
            json!({"group": self.group, "evaluations": self.evaluations, "distinct_nontrivial": self.nontrivial, "failures": f, "samples": self.samples, "unavailable": self.unavailable})
        }
    }

    // ---------------------------------------------------------------- features (input classes of known findings)
    fn seg_has_union(s: &Segment) -> bool {
        match s { Segment::Selectors(_) => true, Segment::Descendant(b) => seg_has_union(b), Segment::Selector(Selector::Filter(f)) => filter_has(f, &|s| seg_has_union(s)), _ => false }
    }
    fn filter_has(f: &Filter, p: &dyn Fn(&Segment) -> bool) -> bool {
        match f {
            Filter::Or(v) | Filter::And(v) => v.iter().any(|x| filter_has(x, p)),
            Filter::Atom(FilterAtom::Filter { expr, .. }) => filter_has(expr, p),
            Filter::Atom(FilterAtom::Test { expr, .. }) => test_has(expr, p),
            Filter::Atom(FilterAtom::Comparison(c)) => {
                let (l, r) = c.vals();
                [l, r].iter().any(|x| match x { Comparable::Function(tf) => fn_has(tf, p), _ => false })
            }
        }
    }
    fn test_has(t: &Test, p: &dyn Fn(&Segment) -> bool) -> bool {
        match t { Test::RelQuery(v) => v.iter().any(|s| p(s)), Test::AbsQuery(q) => q.segments.iter().any(|s| p(s)), Test::Function(tf) => fn_has(tf, p) }
    }
    fn fn_has(tf: &TestFunction, p: &dyn Fn(&Segment) -> bool) -> bool {
        let a = |x: &FnArg| match x { FnArg::Test(t) => test_has(t, p), FnArg::Filter(f) => filter_has(f, p), _ => false };
        match tf {
            TestFunction::Custom(_, v) => v.iter().any(|x| a(x)),
            TestFunction::Length(x) => a(x), TestFunction::Value(x) | TestFunction::Count(x) => a(x),
            TestFunction::Search(x, y) | TestFunction::Match(x, y) => a(x) || a(y),
        }
    }
    /// the same query with every string literal replaced by f(literal)
    pub fn map_literals(q: &JpQuery, f: &dyn Fn(&str) -> String) -> JpQuery {
        fn lit(l: &Literal, f: &dyn Fn(&str) -> String) -> Literal { match l { Literal::String(s) => Literal::String(f(s)), x => x.clone() } }
        fn cmpb(c: &Comparable, f: &dyn Fn(&str) -> String) -> Comparable { match c { Comparable::Literal(l) => Comparable::Literal(lit(l, f)), Comparable::Function(t) => Comparable::Function(tfn(t, f)), x => x.clone() } }
        fn arg(a: &FnArg, f: &dyn Fn(&str) -> String) -> FnArg { match a { FnArg::Literal(l) => FnArg::Literal(lit(l, f)), FnArg::Test(t) => FnArg::Test(Box::new(tst(t, f))), FnArg::Filter(x) => FnArg::Filter(flt(x, f)) } }
        fn tfn(t: &TestFunction, f: &dyn Fn(&str) -> String) -> TestFunction {
            match t { TestFunction::Custom(n, v) => TestFunction::Custom(n.clone(), v.iter().map(|x| arg(x, f)).collect()), TestFunction::Length(x) => TestFunction::Length(Box::new(arg(x, f))),
                      TestFunction::Value(x) => TestFunction::Value(arg(x, f)), TestFunction::Count(x) => TestFunction::Count(arg(x, f)),
                      TestFunction::Search(x, y) => TestFunction::Search(arg(x, f), arg(y, f)), TestFunction::Match(x, y) => TestFunction::Match(arg(x, f), arg(y, f)) }
        }
        fn tst(t: &Test, f: &dyn Fn(&str) -> String) -> Test { match t { Test::RelQuery(v) => Test::RelQuery(segs(v, f)), Test::AbsQuery(q) => Test::AbsQuery(JpQuery::new(segs(&q.segments, f))), Test::Function(t) => Test::Function(Box::new(tfn(t, f))) } }
        fn cmpn(c: &Comparison, f: &dyn Fn(&str) -> String) -> Comparison {
            let (l, r) = c.vals(); let (l, r) = (cmpb(l, f), cmpb(r, f));
            match c { Comparison::Eq(..) => Comparison::Eq(l, r), Comparison::Ne(..) => Comparison::Ne(l, r), Comparison::Gt(..) => Comparison::Gt(l, r), Comparison::Gte(..) => Comparison::Gte(l, r), Comparison::Lt(..) => Comparison::Lt(l, r), Comparison::Lte(..) => Comparison::Lte(l, r) }
        }
        fn flt(x: &Filter, f: &dyn Fn(&str) -> String) -> Filter {
            match x { Filter::Or(v) => Filter::Or(v.iter().map(|y| flt(y, f)).collect()), Filter::And(v) => Filter::And(v.iter().map(|y| flt(y, f)).collect()),
                      Filter::Atom(FilterAtom::Filter { expr, not }) => Filter::Atom(FilterAtom::Filter { expr: Box::new(flt(expr, f)), not: *not }),
                      Filter::Atom(FilterAtom::Test { expr, not }) => Filter::Atom(FilterAtom::Test { expr: Box::new(tst(expr, f)), not: *not }),
                      Filter::Atom(FilterAtom::Comparison(c)) => Filter::Atom(FilterAtom::Comparison(Box::new(cmpn(c, f)))) }
        }
        fn sel(s: &Selector, f: &dyn Fn(&str) -> String) -> Selector { match s { Selector::Filter(x) => Selector::Filter(flt(x, f)), y => y.clone() } }
        fn segs(v: &[Segment], f: &dyn Fn(&str) -> String) -> Vec<Segment> {
            v.iter().map(|s| match s { Segment::Selector(x) => Segment::Selector(sel(x, f)), Segment::Selectors(xs) => Segment::Selectors(xs.iter().map(|x| sel(x, f)).collect()),
                                       Segment::Descendant(b) => Segment::Descendant(Box::new(segs(std::slice::from_ref(&**b), f).remove(0))) }).collect()
        }
        JpQuery::new(segs(&q.segments, f))
    }
    /// string literals of the comparisons / function arguments in the filters of a query
    fn literal_strings(q: &[Segment], out: &mut Vec<String>) {
        fn cmpb(c: &Comparable, out: &mut Vec<String>) { match c { Comparable::Literal(Literal::String(s)) => out.push(s.clone()), Comparable::Function(tf) => tfn(tf, out), _ => {} } }
        fn arg(a: &FnArg, out: &mut Vec<String>) { match a { FnArg::Literal(Literal::String(s)) => out.push(s.clone()), FnArg::Test(t) => tst(t, out), FnArg::Filter(f) => flt(f, out), _ => {} } }
        fn tfn(tf: &TestFunction, out: &mut Vec<String>) {
            match tf { TestFunction::Custom(_, v) => v.iter().for_each(|x| arg(x, out)), TestFunction::Length(x) => arg(x, out), TestFunction::Value(x) | TestFunction::Count(x) => arg(x, out),
                       TestFunction::Search(x, y) | TestFunction::Match(x, y) => { arg(x, out); arg(y, out) } }
        }
        fn tst(t: &Test, out: &mut Vec<String>) { match t { Test::RelQuery(v) => literal_strings(v, out), Test::AbsQuery(q) => literal_strings(&q.segments, out), Test::Function(tf) => tfn(tf, out) } }
        fn flt(f: &Filter, out: &mut Vec<String>) {
            match f { Filter::Or(v) | Filter::And(v) => v.iter().for_each(|x| flt(x, out)), Filter::Atom(FilterAtom::Filter { expr, .. }) => flt(expr, out),
                      Filter::Atom(FilterAtom::Test { expr, .. }) => tst(expr, out), Filter::Atom(FilterAtom::Comparison(c)) => { let (l, r) = c.vals(); cmpb(l, out); cmpb(r, out) } }
        }
        fn sel(s: &Selector, out: &mut Vec<String>) { if let Selector::Filter(f) = s { flt(f, out) } }
        for s in q {
            match s { Segment::Selector(x) => sel(x, out), Segment::Selectors(v) => v.iter().for_each(|x| sel(x, out)), Segment::Descendant(b) => literal_strings(std::slice::from_ref(&**b), out) }
        }
    }
    fn name_texts(q: &[Segment], out: &mut Vec<String>) {
        fn sel(s: &Selector, out: &mut Vec<String>) { if let Selector::Name(t) = s { out.push(t.clone()); } }
        for s in q {
            match s {
                Segment::Selector(x) => sel(x, out),
                Segment::Selectors(v) => v.iter().for_each(|x| sel(x, out)),
                Segment::Descendant(b) => name_texts(std::slice::from_ref(&**b), out),
            }
        }
    }
    fn doc_names(v: &Value, out: &mut Vec<String>) {
        match v {
            Value::Array(a) => a.iter().for_each(|x| doc_names(x, out)),
            Value::Object(o) => o.iter().for_each(|(k, x)| { out.push(k.clone()); doc_names(x, out) }),
            _ => {}
        }
    }
    fn doc_has_nested_mixed_numbers(v: &Value) -> bool {
        fn nums(v: &Value, depth: usize, ints: &mut bool, floats: &mut bool) {
            match v {
                Value::Number(n) if depth > 0 => { if n.is_i64() || n.is_u64() { *ints = true } else { *floats = true } }
                Value::Array(a) => a.iter().for_each(|x| nums(x, depth + 1, ints, floats)),
                Value::Object(o) => o.values().for_each(|x| nums(x, depth + 1, ints, floats)),
                _ => {}
            }
        }
        let (mut i, mut f) = (false, false);
        nums(v, 0, &mut i, &mut f);
        i && f
    }
    /// which kinds of escape sequence a name-selector text contains (the input classes of the findings on escapes are per kind)
    pub fn escape_kinds(t: &str) -> Vec<String> {
        let mut out = vec![];
        let cs: Vec<char> = t.chars().collect();
        let mut i = 0;
        while i + 1 < cs.len() {
            if cs[i] == '\\' {
                let k = match cs[i + 1] { '\\' => "backslash", '/' => "solidus", '\'' | '"' => "quote", 'u' => "unicode", 'b' | 'f' | 'n' | 'r' | 't' => "control", _ => "other" };
                let f = format!("escape-kind:{}", k);
                if !out.contains(&f) { out.push(f); }
                i += 2;
            } else { i += 1; }
        }
        out
    }
    /// nesting depth of a document, cut off at 64 (the deeply nested curated documents get a restricted query menu)
    pub fn is_deep(v: &Value) -> bool {
        fn go(v: &Value, d: usize) -> bool {
            if d >= 64 { return true; }
            match v { Value::Array(a) => a.iter().any(|x| go(x, d + 1)), Value::Object(o) => o.values().any(|x| go(x, d + 1)), _ => false }
        }
        go(v, 0)
    }
    /// on a deeply nested document: at most two segments, one `..`, and a `..` inside a filter only in one-segment queries
    pub fn too_heavy_for_deep(q: &JpQuery) -> bool {
        q.segments.len() > 2 || q.segments.iter().filter(|s| matches!(s, Segment::Descendant(_))).count() > 1
            || (q.segments.len() > 1 && q.segments.iter().any(|s| desc_in_filter(s)))
    }
    fn desc_in_filter(s: &Segment) -> bool {
        let is_desc = |x: &Segment| matches!(x, Segment::Descendant(_));
        match s {
            Segment::Selector(Selector::Filter(f)) => filter_has(f, &is_desc),
            Segment::Selectors(v) => v.iter().any(|x| matches!(x, Selector::Filter(f) if filter_has(f, &is_desc))),
            Segment::Descendant(b) => desc_in_filter(b),
            _ => false,
        }
    }
    pub fn features(q: &[Segment], doc: &Value) -> Vec<String> {
        let mut f = vec![];
        if q.iter().any(seg_has_union) { f.push("multi-selector-segment".to_string()); }
        let mut texts = vec![];
        name_texts(q, &mut texts);
        if texts.iter().any(|t| t.starts_with('"')) { f.push("double-quoted-name-selector".to_string()); }
        if texts.iter().any(|t| t.contains('\\')) { f.push("escape-in-name-selector".to_string()); }
        for t in &texts { for k in escape_kinds(t) { if !f.contains(&k) { f.push(k); } } }
        let mut lits = vec![];
        literal_strings(q, &mut lits);
        if lits.iter().any(|l| escape_name(l) != *l) { f.push("string-literal-needs-escaping".to_string()); }
        let mut names = vec![];
        doc_names(doc, &mut names);
        if names.iter().any(|n| escape_name(n) != *n) { f.push("member-name-needs-escaping".to_string()); }
        if names.iter().any(|n| n.len() >= 2 && n.starts_with('\'') && n.ends_with('\'')) { f.push("member-name-looks-quoted".to_string()); }
        if names.iter().any(|n| n.len() >= 2 && n.starts_with('"') && n.ends_with('"')) { f.push("member-name-looks-double-quoted".to_string()); }
        if doc_has_nested_mixed_numbers(doc) { f.push("int-and-float-inside-containers".to_string()); }
        f
    }

    // ---------------------------------------------------------------- end to end: js_path_process vs rfc_query
    pub fn show(q: &JpQuery) -> String { format!("{:?}", q) }

    // ---- termination watchdog: the evaluation in progress is published; main.rs reports it if it runs too long ----
    pub static CUR: std::sync::Mutex<Option<(String, String, std::time::Instant)>> = std::sync::Mutex::new(None);
    pub fn watch(group: &str, what: impl FnOnce() -> String) {
        static N: std::sync::atomic::AtomicU64 = std::sync::atomic::AtomicU64::new(0);
        // publishing every evaluation would dominate the run time of the large groups: every 8th is enough to bound a hang.  The slot is shared by
        // the worker threads, so an entry is STALE only if no thread published for the whole limit: with every 8th evaluation published and a
        // 300 s limit that needs all threads to be starved for minutes (seen once with every 64th / 120 s on a machine under load 60)
        let n = N.fetch_add(1, std::sync::atomic::Ordering::Relaxed);
        if group == "arith" || group == "text_arith" || n % 8 == 0 { *CUR.lock().unwrap() = Some((group.to_string(), what(), std::time::Instant::now())); }
    }
    pub fn unwatch() { *CUR.lock().unwrap() = None; }

    pub fn e2e_one<T: Queryable>(q: &JpQuery, doc: &T, docv: &Value, rep: &mut Report, tag: &str, ids: (usize, usize)) -> Option<Vec<(usize, String)>> {
        rep.evaluations += 1;
        watch(&rep.group, || format!("query {} on {}", show(q), docv));
        let mut union_multi = false;
        let mut ext_multi = false;
        let want = { let c = Ctx::new(doc); let r = c.query(q); union_multi = c.union_multi.get(); ext_multi = c.ext_multi.get(); r };
        if ext_multi { rep.evaluations -= 1; return None; }   // an extension-function argument selected several nodes: outside C14, not compared
        let got = catch_unwind(AssertUnwindSafe(|| js_path_process(q, doc)));
        // input class of the failing input (computed only when something fails)
        let feats_of = || { let mut f = features(&q.segments, docv);
                            // the known finding on union order needs a multi-selector segment that receives MORE THAN ONE input node
                            if !union_multi { f.retain(|x| x != "multi-selector-segment"); } f };
        let w = |extra: Value| json!({"query": show(q), "doc": docv, "qi": ids.0, "di": ids.1, "instance": tag, "detail": extra});
        let got: Vec<QueryRef<T>> = match got {
            Err(_) => { { let o = format!("{}.no_panic", rep.group); rep.fail_with(&o, &feats_of(), || w(json!("panic"))); } return None; }
            Ok(Err(e)) => { { let o = format!("{}.ok", rep.group); rep.fail_with(&o, &feats_of(), || w(json!(format!("Err({})", e)))); } return None; }
            Ok(Ok(v)) => v,
        };
        if !want.is_empty() || !got.is_empty() { rep.nontrivial += 1; }
        let gp: Vec<(*const T, String)> = got.iter().map(|r| (r.clone().val() as *const T, r.clone().path())).collect();
        let wp: Vec<(*const T, String)> = want.iter().map(|n| (n.v as *const T, n.path.clone())).collect();
        let mut gs: Vec<usize> = gp.iter().map(|x| x.0 as usize).collect();
        let mut ws: Vec<usize> = wp.iter().map(|x| x.0 as usize).collect();
        let same_seq = gs == ws;
        gs.sort(); ws.sort();
        let detail = || json!({"observed": gp.iter().map(|x| x.1.clone()).collect::<Vec<_>>(), "expected": wp.iter().map(|x| x.1.clone()).collect::<Vec<_>>()});
        // evaluations over the second Queryable implementation are reported under their own obligation names (C15)
        let g = if tag == "serde_json::Value" { rep.group.clone() } else { format!("{}.second_impl", rep.group) };
        if gs != ws {
            // same set of nodes but different multiplicities: duplicates lost or invented (C02); otherwise wrong nodes (C01)
            let (mut gd, mut wd) = (gs.clone(), ws.clone());
            gd.dedup(); wd.dedup();
            let ob = if gd == wd { "multiplicity" } else { "members" };
            rep.fail_with(&format!("{}.{}", g, ob), &feats_of(), || w(detail()));
        } else if !same_seq {
            // the known finding on union order is ONE specific wrong order (per selector over the whole input list): any other
            // order is a different violation and is not covered by it
            let mut f = feats_of();
            if f.iter().any(|x| x == "multi-selector-segment") {
                let kf: Vec<usize> = Ctx::known_union_order(doc).query(q).iter().map(|n| n.v as *const T as usize).collect();
                if kf != gp.iter().map(|x| x.0 as usize).collect::<Vec<_>>() { f.retain(|x| x != "multi-selector-segment"); f.push("order-differs-from-known-union-order".to_string()); }
            }
            rep.fail_with(&format!("{}.order", g), &f, || w(detail()));
        } else if gp.iter().zip(wp.iter()).any(|(a, b)| a.1 != b.1) {
            // the findings on path text are ONE specific wrong text per node (the name or the selector text copied verbatim): a path
            // that is neither the Normalized Path nor that text is a different violation and is not covered by them
            let known = gp.iter().zip(want.iter()).filter(|(a, b)| a.1 != b.path).all(|(a, b)| a.1 == b.kpath);
            let mut f = feats_of();
            if !known { f.retain(|x| !x.starts_with("member-name-") && !x.starts_with("escape-") && x != "double-quoted-name-selector"); f.push("path-differs-from-known-path-text".to_string()); }
            rep.fail_with(&format!("{}.path", g), &f, || w(detail()));
        }
        if rep.samples.len() < 6 && !want.is_empty() && rep.evaluations % 997 == 1 {
            rep.samples.push(json!({"query": show(q), "doc": docv, "result": wp.iter().map(|x| x.1.clone()).collect::<Vec<_>>()}));
        }
        Some(gp.iter().map(|x| (x.0 as usize, x.1.clone())).collect())
    }

    pub fn queries(tier: &str, seed: u64) -> Vec<JpQuery> {
        let mut rng = Rng(seed.wrapping_mul(0x2545F4914F6CDD1D) | 1);
        let thorough = tier == "thorough";
        let fs = filters(&mut rng, if thorough { 120 } else { 40 });
        let segs = segments(&fs, &mut rng, if thorough { 60 } else { 24 });
        let mut out: Vec<JpQuery> = vec![JpQuery::new(vec![])];
        for s in &segs { out.push(JpQuery::new(vec![s.clone()])); }
        // two segments: every first segment from a structural core x every second segment
        let core: Vec<Segment> = segs.iter().filter(|s| !matches!(s, Segment::Selector(Selector::Filter(_)))).cloned().collect();
        // quick: every second first-segment (rotating with the seed); thorough: all
        for (ai, a) in core.iter().enumerate() {
            for b in &segs { out.push(JpQuery::new(vec![a.clone(), b.clone()])); }
        }
        let n3 = if thorough { 6000 } else { 600 };
        for _ in 0..n3 {
            out.push(JpQuery::new(vec![segs[rng.below(segs.len())].clone(), segs[rng.below(segs.len())].clone(), segs[rng.below(segs.len())].clone()]));
        }
        out
    }

    /// restricted query sets, so that a failure is attributed to the mechanism the property is about
    pub fn queries_subset(subset: &str, tier: &str, seed: u64) -> Vec<JpQuery> {
        let mut rng = Rng(seed.wrapping_mul(0x2545F4914F6CDD1D) | 1);
        let fs: Vec<Filter> = match subset {
            // function atoms only (count / length / value / match / search), plain and negated
            // comparison atoms only (literals, singular queries from @ and $, value-typed functions), plain and negated
            "e2e_cmp" => { let a = atoms(); let ca: Vec<Filter> = a.iter().filter(|f| matches!(f, Filter::Atom(FilterAtom::Comparison(_)))).cloned().collect();
                           let mut v = ca.clone();
                           v.extend(ca.iter().map(|f| Filter::Atom(FilterAtom::Filter { expr: Box::new(f.clone()), not: true }))); v }
            "e2e_fn" => { let a = atoms(); let fa: Vec<Filter> = a.iter().filter(|f| format!("{:?}", f).contains("Function(")).cloned().collect();
                          let mut v = fa.clone();
                          v.extend(fa.iter().map(|f| Filter::Atom(FilterAtom::Filter { expr: Box::new(f.clone()), not: true }))); v }
            // C14: one extension-function call per filter (value arguments), plain and negated
            "e2e_ext" => ext_filters(),
            _ => filters(&mut rng, if tier == "thorough" { 400 } else { 120 }),
        };
        let w = Segment::Selector(Selector::Wildcard);
        let mut out = vec![];
        for f in &fs {
            let s = Segment::Selector(Selector::Filter(f.clone()));
            out.push(JpQuery::new(vec![s.clone()]));
            out.push(JpQuery::new(vec![w.clone(), s.clone()]));
            out.push(JpQuery::new(vec![Segment::Descendant(Box::new(s.clone()))]));
        }
        out
    }
    pub fn group_e2e(tier: &str, seed: u64, only: Option<(usize, usize)>) -> Report { group_e2e_named("e2e", tier, seed, only) }
    pub fn group_e2e_named(name: &str, tier: &str, seed: u64, only: Option<(usize, usize)>) -> Report {
        // (the extension functions are documented for serde_json::Value only: their documents come first and are evaluated on every query)
        let ds = if name == "e2e_ext" { let mut v = ext_docs(); v.extend(docs(if tier == "thorough" { 100 } else { 20 }, seed)); v } else { docs(if tier == "thorough" { 400 } else { 60 }, seed) };
        let qs = if name == "e2e" { queries(tier, seed) } else { queries_subset(name, tier, seed) };
        // quick: every query on the curated documents and on a rotating sample of the others; thorough: every pair
        let stride = if tier == "thorough" { 1 } else { 7 };
        let nthreads: usize = if only.is_some() { 1 } else { 8 };
        let deep: Vec<bool> = ds.iter().map(is_deep).collect();
        let (ds, qs, deep) = (&ds, &qs, &deep);
        let parts: Vec<Report> = std::thread::scope(|sc| {
            let hs: Vec<_> = (0..nthreads).map(|t| sc.spawn(move || {
                let mut rep = Report::new(name);
                for (qi, q) in qs.iter().enumerate() {
                    if qi % nthreads != t { continue; }
                    for (di, d) in ds.iter().enumerate() {
                        if let Some((a, b)) = only { if (qi, di) != (a, b) { continue; } }
                        else if (qi + di) % stride != 0 && di >= always() { continue; }
                        // the two deeply nested documents: at most two segments and one `..` (a descendant of a descendant of 600 nodes is quadratic)
                        // (a descendant of a descendant of 600 nodes is quadratic, and so is a `..` inside a filter, evaluated once per candidate node)
                        if deep[di] && too_heavy_for_deep(q) { continue; }
                        let r1 = e2e_one(q, d, d, &mut rep, "serde_json::Value", (qi, di));
                        if name == "e2e_ext" { continue; }   // the second implementation has no extension functions (the trait's default returns null)
                        // quick: the second implementation on every pair with a curated document, on every other pair with a random one
                        if tier != "thorough" && only.is_none() && di >= always() && (qi + di) % 2 == 1 { continue; }
                        // C15: the same query over a second Queryable implementation of the same document
                        let j = from_value(d);
                        let r2 = e2e_one(q, &j, d, &mut rep, "kjson::J", (qi, di));
                        if di < always() && di >= always_small() {
                            // curated documents with repeated subtrees, through the third implementation (equal containers share one allocation)
                            let r = from_value_shared(d);
                            let _ = e2e_one(q, &r, d, &mut rep, "kjson::R(shared subtrees)", (qi, di));
                        }
                        if di < always() {
                            // the same document seen through a view whose objects list their members in another order:
                            // the result must follow THAT order (the mirror is generic in the data type)
                            let jr = reverse_members(&j);
                            if jr != j && (qi + di) % 3 == 0 { let _ = e2e_one(q, &jr, d, &mut rep, "kjson::J(reversed member order)", (qi, di)); }
                        }
                        if let (Some(a), Some(b)) = (r1, r2) {
                            let pa: Vec<&String> = a.iter().map(|x| &x.1).collect();
                            let pb: Vec<&String> = b.iter().map(|x| &x.1).collect();
                            if pa != pb {
                                rep.fail(&format!("{}.view_independent", name), &features(&q.segments, d), json!({"query": show(q), "doc": d, "qi": qi, "di": di, "value_paths": pa, "kjson_paths": pb}));
                            }
                        }
                    }
                }
                rep
            })).collect();
            hs.into_iter().map(|h| h.join().unwrap_or_else(|_| Report::new(name))).collect()
        });
        let mut rep = Report::new(name);
        for p in parts { rep.merge(p); }
        rep
    }

    // ---------------------------------------------------------------- through the parser: js_path(print(ast), doc) vs rfc_query(ast, doc)
    // Bounded stand-in for the AST construction in src/parser.rs (pest Pair code is out of both verifiers' reach):
    // the query TEXT printed from an AST must evaluate to what the RFC says about that AST.
    pub fn text_queries(name: &str, tier: &str, seed: u64) -> Vec<JpQuery> {
        let mut rng = Rng(seed.wrapping_mul(0x2545F4914F6CDD1D) | 1);
        let mut out = vec![];
        if name == "text_arith" {
            // every slice / index over a small range incl. explicit 0, absent parts, negative steps
            let mut opts: Vec<Option<i64>> = vec![None];
            opts.extend((-3..=3).map(Some));
            for a in &opts { for b in &opts { for c in &opts { out.push(JpQuery::new(vec![Segment::Selector(Selector::Slice(*a, *b, *c))])); } } }
            for i in -7..=7 { out.push(JpQuery::new(vec![Segment::Selector(Selector::Index(i))])); }
            for i in -4..=4 {
                for v in [1i64, 3] {
                    let c = Comparison::Eq(Comparable::SingularQuery(SingularQuery::Current(vec![SingularQuerySegment::Index(i)])), Comparable::Literal(Literal::Int(v)));
                    out.push(JpQuery::new(vec![Segment::Selector(Selector::Filter(Filter::Atom(FilterAtom::Comparison(Box::new(c)))))]));
                }
            }
            for i in [9007199254740991i64, -9007199254740991] {
                out.push(JpQuery::new(vec![Segment::Selector(Selector::Index(i))]));
                out.push(JpQuery::new(vec![Segment::Selector(Selector::Slice(Some(i), Some(-i), Some(1)))]));
                out.push(JpQuery::new(vec![Segment::Selector(Selector::Slice(None, None, Some(i)))]));
            }
        } else if name == "text_e2e" {
            // the whole end-to-end query menu (1 and 2 segments, a sample of the 3-segment ones) printed and sent through the parser
            let all = queries(tier, seed);
            for (i, q) in all.into_iter().enumerate() { if q.segments.len() <= 1 || tier == "thorough" || i % 5 == 0 { out.push(q); } }
        } else if name == "text_cmp" {
            // comparisons through the parser: every comparison atom of the menu, plus string literals that need escaping in the query text
            let mut fs: Vec<Filter> = atoms().into_iter().filter(|f| matches!(f, Filter::Atom(FilterAtom::Comparison(_)))).collect();
            let cur = || Comparable::SingularQuery(SingularQuery::Current(vec![]));
            let lit = |s: &str| Comparable::Literal(Literal::String(s.to_string()));
            for s in ["a'b", "a\\b", "a\nb", "a\tb", "a/b", "a\"b", "é", "𝄞", "'", "\\", "a\\'b", "a\\nb", ""] {
                fs.push(Filter::Atom(FilterAtom::Comparison(Box::new(Comparison::Eq(cur(), lit(s))))));
                fs.push(Filter::Atom(FilterAtom::Comparison(Box::new(Comparison::Ne(cur(), lit(s))))));
                fs.push(Filter::Atom(FilterAtom::Comparison(Box::new(Comparison::Lt(lit(s), cur())))));
                fs.push(Filter::Atom(FilterAtom::Comparison(Box::new(Comparison::Eq(Comparable::SingularQuery(SingularQuery::Current(vec![SingularQuerySegment::Name("a".into())])), lit(s))))));
            }
            for f in fs {
                let sgm = Segment::Selector(Selector::Filter(f));
                out.push(JpQuery::new(vec![sgm.clone()]));
                out.push(JpQuery::new(vec![Segment::Selector(Selector::Wildcard), sgm]));
            }
        } else if name == "text_union" {
            // multi-selector segments (all ordered pairs, also the same selector twice, a few triples) after `$`, `$[*]`, `$..` and `$.a`
            let sels = vec![Selector::Name("a".into()), Selector::Name("b".into()), Selector::Index(0), Selector::Index(1), Selector::Index(-1), Selector::Wildcard,
                            Selector::Slice(Some(0), Some(2), None), Selector::Slice(Some(1), Some(3), None), Selector::Slice(None, None, Some(-1))];
            let mut unions: Vec<Segment> = vec![];
            for x in &sels { for y in &sels { unions.push(Segment::Selectors(vec![x.clone(), y.clone()])); } }
            for _ in 0..(if tier == "thorough" { 200 } else { 30 }) {
                unions.push(Segment::Selectors(vec![sels[rng.below(sels.len())].clone(), sels[rng.below(sels.len())].clone(), sels[rng.below(sels.len())].clone()]));
            }
            for u in &unions {
                out.push(JpQuery::new(vec![u.clone()]));
                out.push(JpQuery::new(vec![Segment::Selector(Selector::Wildcard), u.clone()]));
                out.push(JpQuery::new(vec![Segment::Descendant(Box::new(u.clone()))]));
                out.push(JpQuery::new(vec![Segment::Selector(Selector::Name("a".into())), u.clone()]));
            }
        } else if name == "text_ext" {
            // C14 through the parser: every extension-function filter of the AST menu, printed
            for f in ext_filters() {
                // (a comparison as function argument - `in(@ == 1, $.list)` - is valid RFC 9535 but the recogniser rejects it: a C06 matter, see
                //  DESIGN.md 11.8; such arguments stay in the AST-level group e2e_ext)
                if format!("{:?}", f).contains("[Filter(") { continue; }
                let sgm = Segment::Selector(Selector::Filter(f));
                out.push(JpQuery::new(vec![sgm.clone()]));
                out.push(JpQuery::new(vec![Segment::Selector(Selector::Name("elems".into())), sgm.clone()]));
                out.push(JpQuery::new(vec![Segment::Selector(Selector::Wildcard), sgm]));
            }
        } else if name == "text_plain" {
            // names and indexes only ("plain paths"), depth 1..3: the queries for which a document-specific shortcut is conceivable
            let mut segs: Vec<Segment> = ["a", "b", "k", "0", "1", "a/b", "a~b", "~0", "x", "a\\b", "'\\/'"].iter().map(|n| Segment::Selector(Selector::Name(n.to_string()))).collect();
            for i in -2..=2 { segs.push(Segment::Selector(Selector::Index(i))); }
            for a in &segs { out.push(JpQuery::new(vec![a.clone()]));
                for b in &segs { out.push(JpQuery::new(vec![a.clone(), b.clone()]));
                    if tier == "thorough" { for c in &segs { out.push(JpQuery::new(vec![a.clone(), b.clone(), c.clone()])); } } } }
            if tier != "thorough" { for _ in 0..400 { out.push(JpQuery::new(vec![segs[rng.below(segs.len())].clone(), segs[rng.below(segs.len())].clone(), segs[rng.below(segs.len())].clone()])); } }
        } else {
            let a = atoms();
            let mut fs = filters(&mut rng, if tier == "thorough" { 400 } else { 150 });
            // explicit negation / parenthesis / precedence shapes over every pair of the first atoms
            let neg = |f: &Filter| Filter::Atom(FilterAtom::Filter { expr: Box::new(f.clone()), not: true });
            let par = |f: &Filter| Filter::Atom(FilterAtom::Filter { expr: Box::new(f.clone()), not: false });
            for x in a.iter().take(12) {
                fs.push(neg(x)); fs.push(neg(&neg(x))); fs.push(par(x)); fs.push(neg(&par(&neg(x))));
                for y in a.iter().take(6) {
                    fs.push(neg(&Filter::Or(vec![neg(x), neg(y)])));
                    fs.push(neg(&neg(&Filter::Or(vec![x.clone(), y.clone()]))));
                    fs.push(Filter::Or(vec![x.clone(), Filter::And(vec![y.clone(), neg(x)])]));
                    fs.push(Filter::And(vec![par(&Filter::Or(vec![x.clone(), y.clone()])), neg(y)]));
                }
            }
            for f in fs {
                let s = Segment::Selector(Selector::Filter(f));
                out.push(JpQuery::new(vec![s.clone()]));
                out.push(JpQuery::new(vec![Segment::Selector(Selector::Wildcard), s]));
            }
        }
        out
    }
    pub fn group_text(name: &str, tier: &str, seed: u64, only: Option<(usize, usize)>) -> Report {
        let mut rep = Report::new(name);
        let ds: Vec<Value> = if name == "text_arith" { let mut v: Vec<Value> = (0..=5).map(|n| Value::Array((0..n).map(|i| json!(i)).collect())).collect();
                                                        v.push(json!([[1, 2, 3], [3, 2, 1], [1], [], [3, 1]]));
                                                        // a slice / index applied to something that is not an array selects nothing
                                                        v.push(json!({"a": 1, "b": [1, 2], "0": 3})); v.push(json!({})); v.push(json!("abc")); v.push(json!(7)); v.push(json!(null));
                                                        v.push(json!([{"a": 1, "b": 2}, {"0": [1, 2, 3]}, "xy", [1, 2]])); v }
                             else if name == "text_plain" {
                                 // objects whose member names look like indexes or contain JSON-pointer metacharacters come first
                                 let mut v = vec![json!({"a": {"0": "zero", "1": [1, 2]}, "0": {"a": 1}}), json!({"a/b": 1, "a": {"b": 2}, "a~b": 3, "a~0b": 4, "~0": 5, "~": 6}),
                                                  json!({"a": [{"0": 1}, [10, 11]], "b": {"-1": 1, "a": {"k": [1, 2, 3]}}}), json!([{"0": "m"}, ["e0", "e1"]]), json!({"0": [0, 1], "1": {"0": {"1": 2}}}),
                                                  json!({"a~1b": 7, "a/b": 8, "x": {"a~1b": 9}}), json!({"a": {"~0": 1, "~": 2, "k": {"~0": 3}}}), json!({"a\\b": 1, "/": 2, "a": {"/": 3, "a\\b": [1, 2]}, "b": {"a": {"/": 4}}})];
                                 v.extend(docs(if tier == "thorough" { 200 } else { 30 }, seed)); v }
                             else if name == "text_cmp" {
                                 let mut v = vec![json!(["a'b", "a\\'b", "a\nb", "a\\nb", "a/b", "a\\b", "é", "a\"b", "a\tb", "'", "\\", "", "𝄞", "b"]),
                                                  json!([{"a": "a'b"}, {"a": "a\\'b"}, {"a": "a\nb"}, {"a": "a\\b"}, {"a": "é"}, {"a": ""}, {"b": "a'b"}])];
                                 v.extend(docs(if tier == "thorough" { 200 } else { 30 }, seed)); v }
                             else if name == "text_ext" { let mut v = ext_docs(); v.extend(docs(if tier == "thorough" { 60 } else { 10 }, seed)); v }
                             else { docs(if tier == "thorough" { 200 } else { 30 }, seed) };
        let qs = text_queries(name, tier, seed);
        let stride = if tier == "thorough" || name == "text_arith" { 1 } else { 5 };
        // the queries are spread over 8 threads (a single (query, document) pair is replayed on one)
        let nthreads: usize = if only.is_some() { 1 } else { 8 };
        let deep: Vec<bool> = ds.iter().map(is_deep).collect();
        let deep_ref = &deep;
        let (qs_ref, ds_ref) = (&qs, &ds);
        let parts: Vec<(Report, u64)> = std::thread::scope(|sc| {
            let hs: Vec<_> = (0..nthreads).map(|t| sc.spawn(move || {
                let (qs, ds) = (qs_ref, ds_ref);
                let mut rep = Report::new(name);
                let mut rejected = 0u64;
                for (qi, q) in qs.iter().enumerate() {
                    if qi % nthreads != t { continue; }
            let text = print::query(q);
            for (di, d) in ds.iter().enumerate() {
                if let Some((a, b)) = only { if (qi, di) != (a, b) { continue; } } else if (qi + di) % stride != 0 && di >= always() { continue; }
                if deep_ref[di] && too_heavy_for_deep(q) { continue; }
                rep.evaluations += 1;
                watch(name, || format!("js_path({:?}) on {}", text, d));
                let c = Ctx::new(d);
                let want: Vec<(usize, String)> = c.query(q).into_iter().map(|n| (n.v as *const Value as usize, n.path)).collect();
                let mut feats = features(&q.segments, d);
                if !c.union_multi.get() { feats.retain(|f| f != "multi-selector-segment"); }
                if c.ext_multi.get() { rep.evaluations -= 1; continue; }   // an extension-function argument selected several nodes: outside C14, not compared
                let w = |extra: Value| json!({"text": text, "query": show(q), "doc": d, "qi": qi, "di": di, "detail": extra});
                match catch_unwind(AssertUnwindSafe(|| js_path(&text, d))) {
                    Err(_) => rep.fail(&format!("{}.no_panic", name), &feats, w(json!("panic"))),
                    // every printed query is well-formed and valid by construction (I-JSON integers, well-typed functions) and the unchanged
                    // tree accepts all of them: a rejection is reported (`.accepts`; an Err for a valid query is also a C08 matter)
                    Ok(Err(e)) => { rejected += 1; rep.fail(&format!("{}.accepts", name), &feats, w(json!(format!("Err({})", e.to_string().chars().take(120).collect::<String>())))); }
                    Ok(Ok(v)) => {
                        if !want.is_empty() || !v.is_empty() { rep.nontrivial += 1; }
                        let got: Vec<(usize, String)> = v.iter().map(|r| (r.clone().val() as *const Value as usize, r.clone().path())).collect();
                        let (mut gi, mut wi): (Vec<usize>, Vec<usize>) = (got.iter().map(|x| x.0).collect(), want.iter().map(|x| x.0).collect());
                        let same = gi == wi;
                        gi.sort(); wi.sort();
                        let det = || json!({"observed": got.iter().map(|x| &x.1).collect::<Vec<_>>(), "expected": want.iter().map(|x| &x.1).collect::<Vec<_>>()});
                        if gi != wi {
                            // the finding on string-literal escapes is ONE specific wrong denotation (the text between the quotes taken verbatim):
                            // a result that is neither the RFC one nor that one is a different violation
                            let mut f = feats.clone();
                            if f.iter().any(|x| x == "string-literal-needs-escaping") {
                                let qk = map_literals(q, &|s| print::escape_body(s));
                                let mut kf: Vec<usize> = Ctx::new(d).query(&qk).iter().map(|n| n.v as *const Value as usize).collect();
                                kf.sort();
                                if kf != gi { f.retain(|x| x != "string-literal-needs-escaping"); f.push("result-differs-from-known-literal-denotation".to_string()); }
                            }
                            rep.fail_with(&format!("{}.members", name), &f, || w(det()));
                        }
                        else if !same {
                            let mut f = feats.clone();
                            if f.iter().any(|x| x == "multi-selector-segment") {
                                let kf: Vec<usize> = Ctx::known_union_order(d).query(q).iter().map(|n| n.v as *const Value as usize).collect();
                                if kf != got.iter().map(|x| x.0).collect::<Vec<_>>() { f.retain(|x| x != "multi-selector-segment"); f.push("order-differs-from-known-union-order".to_string()); }
                            }
                            rep.fail_with(&format!("{}.order", name), &f, || w(det()));
                        }
                        // the public trait methods (src/lib.rs) are position-wise projections of the same evaluation
                        use crate::JsonPath;
                        let api_ok = match (catch_unwind(AssertUnwindSafe(|| d.query(&text))), catch_unwind(AssertUnwindSafe(|| d.query_only_path(&text))), catch_unwind(AssertUnwindSafe(|| d.query_with_path(&text)))) {
                            (Ok(Ok(vals)), Ok(Ok(paths)), Ok(Ok(both))) =>
                                vals.iter().map(|x| *x as *const Value as usize).collect::<Vec<_>>() == got.iter().map(|x| x.0).collect::<Vec<_>>()
                                && paths == got.iter().map(|x| x.1.clone()).collect::<Vec<_>>()
                                && both.iter().map(|r| (r.clone().val() as *const Value as usize, r.clone().path())).collect::<Vec<_>>() == got,
                            _ => false,
                        };
                        if !api_ok { rep.fail(&format!("{}.api_agree", name), &feats, w(json!("query / query_only_path / query_with_path disagree with js_path"))); }
                        // C15 at the public API: the same text over a second Queryable implementation of the same document gives
                        // the same paths and equal values, through every trait method
                        if name == "text_ext" { continue; }   // the second implementation has no extension functions
                        let j = from_value(d);
                        let view_ok = match (catch_unwind(AssertUnwindSafe(|| j.query(&text))), catch_unwind(AssertUnwindSafe(|| j.query_only_path(&text))), catch_unwind(AssertUnwindSafe(|| j.query_with_path(&text))),
                                             catch_unwind(AssertUnwindSafe(|| d.query(&text))), catch_unwind(AssertUnwindSafe(|| d.query_only_path(&text))), catch_unwind(AssertUnwindSafe(|| d.query_with_path(&text)))) {
                            (Ok(Ok(jv)), Ok(Ok(jp)), Ok(Ok(jb)), Ok(Ok(dv)), Ok(Ok(dp)), Ok(Ok(db))) =>
                                jp == dp && jv.iter().map(|x| (*x).clone()).collect::<Vec<_>>() == dv.iter().map(|x| from_value(x)).collect::<Vec<_>>()
                                && jb.iter().map(|r| (r.clone().val().clone(), r.clone().path())).collect::<Vec<_>>() == db.iter().map(|r| (from_value(r.clone().val()), r.clone().path())).collect::<Vec<_>>(),
                            _ => false,
                        };
                        if !view_ok { rep.fail(&format!("{}.api_view_independent", name), &feats, w(json!("query / query_only_path / query_with_path over kjson::J differ from the same calls over serde_json::Value"))); }
                        if rep.samples.len() < 4 && !want.is_empty() && rep.evaluations % 211 == 1 { rep.samples.push(json!({"text": text, "doc": d, "result": want.iter().map(|x| &x.1).collect::<Vec<_>>()})); }
                    }
                }
            }
        }
                (rep, rejected)
            })).collect();
            hs.into_iter().map(|h| h.join().unwrap_or_else(|_| (Report::new(name), 0))).collect()
        });
        let mut rejected = 0u64;
        for (p, r) in parts { rep.merge(p); rejected += r; }
        if name == "text_cmp" && only.map_or(true, |o| o.0 >= 9_000_000) {
          // number literals beyond the range of a double (`1e999` parses to an infinite f64): such a literal is greater (less) than every number and
          // equal to none, and it is not null; a parser that rejects it as out of range is equally fine.  Never: a non-number selected by `==`.
          let d = json!([null, 0, 1.5, "a", true, [], {}, 1e308, -1e308, {"a": null}, {"a": 1}]);
          let is_num = |v: &Value| v.is_number();
          let cases: Vec<(&str, Box<dyn Fn(&Value) -> bool>)> = vec![
              ("$[?@ == 1e999]", Box::new(|_v: &Value| false)), ("$[?@ == -1e999]", Box::new(|_v: &Value| false)), ("$[?@ != 1e999]", Box::new(|_v: &Value| true)),
              ("$[?@ < 1e999]", Box::new(move |v: &Value| is_num(v))), ("$[?@ > -1e999]", Box::new(move |v: &Value| is_num(v))), ("$[?@ > 1e999]", Box::new(|_v: &Value| false)),
              ("$[?@ <= 1e999]", Box::new(move |v: &Value| is_num(v))), ("$[?@ >= 1e999]", Box::new(|_v: &Value| false)),
              ("$[?@.a == 1e999]", Box::new(|_v: &Value| false)), ("$[?@.a != 1E+999]", Box::new(|_v: &Value| true)), ("$[?1.5e400 == @]", Box::new(|_v: &Value| false)),
              ("$[?@ == 123456789012345678901234567890e999]", Box::new(|_v: &Value| false)), ("$[?@ < -1.0e999]", Box::new(|_v: &Value| false)),
          ];
          for (ti, (t, want)) in cases.iter().enumerate() {
              if let Some((a, _)) = only { if a != 9_000_000 + ti { continue; } }
              rep.evaluations += 1; rep.nontrivial += 1;
              let w = |extra: Value| json!({"text": t, "doc": d, "qi": 9_000_000 + ti, "di": 0, "detail": extra});
              match catch_unwind(AssertUnwindSafe(|| js_path(t, &d))) {
                  Err(_) => rep.fail("text_cmp.no_panic", &[], w(json!("panic"))),
                  Ok(Err(_)) => {}      // rejected as out of range
                  Ok(Ok(v)) => {
                      let got: Vec<usize> = v.iter().map(|r| r.clone().val() as *const Value as usize).collect();
                      let exp: Vec<usize> = d.as_array().unwrap().iter().filter(|x| want(x)).map(|x| x as *const Value as usize).collect();
                      if got != exp { rep.fail("text_cmp.members", &["number-literal-beyond-f64-range".to_string()], w(json!({"observed": v.iter().map(|r| r.clone().path()).collect::<Vec<_>>(), "expected_count": exp.len()}))); }
                      // the same text over the second implementation: same paths (C15)
                      { use crate::JsonPath; let j = from_value(&d);
                        if let Ok(Ok(jp)) = catch_unwind(AssertUnwindSafe(|| j.query_only_path(t))) {
                            let vp: Vec<String> = v.iter().map(|r| r.clone().path()).collect();
                            if jp != vp { rep.fail("text_cmp.api_view_independent", &[], w(json!({"value_paths": vp, "kjson_paths": jp}))); } } }
                  }
              }
          }
        }
        if name == "text_arith" {
          // multi-byte characters at every byte offset of names, shorthand names, string literals and patterns (slicing a query text at a
          // fixed byte offset must never cut a character), and functions with unusual argument counts (the error path formats the AST)
          { let d = json!({"a": "x", "é": 1});
            let mut texts: Vec<String> = vec!["$[?foo() == 1]".into(), "$[?foo()]".into(), "$[?foo(1) == 1]".into(), "$[?foo(@.a, 1, 'x') == 1]".into(), "$[?length() == 1]".into(),
                                              "$[?count() == 1]".into(), "$[?match(@.a) ]".into(), "$[?value(@.a, @.a) == 1]".into(), "$[?foo() < bar()]".into(), "$[?in() == in()]".into()];
            for pad in 0..140usize {
                let a = "a".repeat(pad);
                for ch in ["é", "☺", "𝄞"] {
                    texts.push(format!("$['{}{}']", a, ch)); texts.push(format!("$.{}{}", a, ch)); texts.push(format!("$[?@.a == '{}{}']", a, ch));
                    texts.push(format!("$[?match(@.a, '{}{}')]", a, ch)); texts.push(format!("$..['{}{}{}']", a, ch, ch)); texts.push(format!("$[?@['{}{}'] == 1 && @.{}{}]", a, ch, a, ch));
                }
            }
            for t in &texts {
                rep.evaluations += 1;
                let r = catch_unwind(AssertUnwindSafe(|| { let p = crate::parser::parse_json_path(t); if let Ok(q) = &p { let _ = q.to_string(); } js_path(t, &d).is_ok() }));
                if r.is_err() { rep.fail("text_arith.no_panic", &[], json!({"text": t, "doc": d, "detail": "panic"})); }
            }
          }
          for d in [json!([0, 1, 2]), json!([[0, 1, 2], [1], []]), json!({"a": [1, 2], "b": [[1]]})] {
            for t in ["$[-9223372036854775808]", "$[9223372036854775807]", "$[-9223372036854775808:]", "$[:-9223372036854775808]", "$[::-9223372036854775808]",
                      "$[?@[-9223372036854775808] == 1]", "$[?@[0] == $[-9223372036854775808]]", "$[?$[0][-9223372036854775808] == 1]", "$[?@[9223372036854775807] == 1]", "$..[?@[-9223372036854775808] == 1]",
                      "$[?count(@[-9223372036854775808]) == 1]", "$[?@[-9223372036854775808]]", "$[?length(@[-9223372036854775808:]) == 1]", "$[9007199254740992]", "$[-9007199254740992]", "$[99999999999999999999]", "$[?@ == 9223372036854775807]", "$[?@ == -9223372036854775808]",
                      "$[?@ in $]", "$[?@ size 2]", "$[?1 anyOf $.b]", "$[?@ nin $]", "$[?@ noneOf $]", "$[?@ subsetOf $]", "$[?@ ~= 'a']", "$[?@ === 1]", "$[?@ <> 1]"] {
                rep.evaluations += 1;
                if catch_unwind(AssertUnwindSafe(|| js_path(t, &d).is_ok())).is_err() {
                    rep.fail("text_arith.no_panic", &[], json!({"text": t, "doc": d, "detail": "panic"}));
                }
            }
          }
        }
        rep.samples.push(json!({"printed_queries_rejected_by_the_parser_not_reported": rejected}));
        rep
    }

    // ---------------------------------------------------------------- C12: a result depends only on (query, document)
    // Bounded stand-in for the clauses of C12 that no function contract states directly: the same (text, document) pair is evaluated
    // first on a fresh process state, again after a history of other queries and documents, in the opposite order, through a query
    // parsed once, and concurrently from several threads sharing one parsed query and one document.
    type Res = Result<Vec<(usize, String)>, String>;
    fn run_text(text: &str, d: &Value) -> Res {
        match catch_unwind(AssertUnwindSafe(|| js_path(text, d))) {
            Ok(Ok(v)) => Ok(v.iter().map(|r| (r.clone().val() as *const Value as usize, r.clone().path())).collect()),
            Ok(Err(e)) => Err(format!("Err({})", e)),
            Err(_) => Err("panic".to_string()),
        }
    }
    fn run_parsed(q: &JpQuery, d: &Value) -> Res {
        match catch_unwind(AssertUnwindSafe(|| js_path_process(q, d))) {
            Ok(Ok(v)) => Ok(v.iter().map(|r| (r.clone().val() as *const Value as usize, r.clone().path())).collect()),
            Ok(Err(e)) => Err(format!("Err({})", e)),
            Err(_) => Err("panic".to_string()),
        }
    }
    fn purity_inputs(tier: &str, seed: u64) -> (Vec<String>, Vec<Value>, Vec<(usize, usize)>) {
        let mut rng = Rng(seed.wrapping_mul(0xD1B54A32D192ED03) | 1);
        let thorough = tier == "thorough";
        // query texts: a sample of every through-the-parser family, plus texts that differ only in ways a careless cache key would drop
        let mut texts: Vec<String> = vec![];
        for fam in ["text_plain", "text_union", "text_arith", "text_filter"] {
            let qs = text_queries(fam, "quick", seed);
            let take = if thorough { 400 } else { 120 };
            let step = std::cmp::max(1, qs.len() / take);
            for (i, q) in qs.iter().enumerate() { if i % step == 0 { texts.push(print::query(q)); } }
        }
        for t in ["$.a", "$.A", "$.a ", "$ .a", "$['a']", "$[\"a\"]", "$.b", "$.ab", "$.a.b", "$.b.a", "$[0]", "$[00]", "$[1]", "$[-1]", "$[0,1]", "$[1,0]", "$[0:1]", "$[1:0]", "$[?@.a == 1]", "$[?@.a == 2]",
                  "$[?@.a==1]", "$[?@.b == 1]", "$[?@.a == 'a']", "$[?@.a == \"a\"]", "$[?match(@.a, 'a')]", "$[?match(@.a, 'b')]", "$[?search(@.a, 'a')]", "$[?match(@.b, 'a')]", "$..a", "$..b", "$.*", "$..*",
                  "$[?length(@.a) == 1]", "$[?count(@.*) == 1]", "$[?count(@.*) == 2]", "$[?value(@.a) == 1]", "$[?@.a < 2]", "$[?@.a <= 2]", "$[?@.a > 2]", "$[?!@.a]", "$[?@.a]", "$[?@.a && @.b]", "$[?@.a || @.b]",
                  "$[?match(@, 'a')]", "$[?search(@, 'a')]", "$[?match(@, 'ab')]", "$[?search(@, 'ab')]", "$[?search(@.a, 'b')]", "$[?match(@.a, 'a.')]", "$[?search(@.a, 'a.')]", "$[?match(@.a, '.a')]",
                  "$['a b']", "$['ab']", "$['a']['b']", "$['a'][' b']", "$[?@.t == 'x y']", "$[?@.t == 'xy']", "$[?@.t == 'x  y']", "$['a\\\\b']", "$['\\/']", "$['a\\/b']", "$['a/b']",
                  "$[9007199254740991]", "$[-9007199254740991]", "$[1:9007199254740991]", "$[-9007199254740991:]", "$[::9007199254740991]", "$[9007199254740991::-2]", "$[?@[9007199254740991] == 1]",
                  " $.a", "$.a\n", "\t$[0]", "$.a.b[*]\n", " $", "$ ",
                  "$[1:3]", "$[::0]", "$[::-1]", "$[0:0]", "$[5:1]", "$[::2]", "$[?@[::0]]", "$[?@[1:3]]", "$..[::0]", "$..[1:3]", "$..a", "$..*", "$..[0]", "$..[?@.a]", "$..k[1]", "$..b[0]"] {
            texts.push(t.to_string());
        }
        let mut ds: Vec<Value> = docs(if thorough { 60 } else { 12 }, seed);
        ds.truncate(if thorough { 120 } else { 48 });
        // documents on which look-alike queries differ, and shapes that would drive per-thread or global scratch state to its limits
        ds.push(json!([{"a": "ab"}, {"a": "ba"}, {"a": "a"}, {"a": "b"}, {"a": "xay"}, {"a": 1}, {"b": "a"}]));
        ds.push(json!(["ab", "ba", "a", "b", "xay", "", "aa"]));
        ds.push(json!({"a b": 1, "ab": 2, "a": {"b": 3, " b": 4}, "A": 5, "a\\b": 6, "/": 7, "a/b": 8}));
        ds.push(json!([{"t": "x y"}, {"t": "xy"}, {"t": "x  y"}]));
        ds.push(deep_array(150));
        ds.push({ let mut v = json!({"a": 1, "k": [1, 2, 3]}); for i in 0..300 { v = if i % 2 == 0 { json!({"a": v, "b": [i]}) } else { json!([v, {"a": i}]) }; } v });
        ds.push(json!([0, 1, 2, 3, 4, 5, 6, 7, 8, 9]));
        let mut pairs: Vec<(usize, usize)> = vec![];
        for ti in 0..texts.len() { for di in 0..ds.len() { if thorough || (ti + di) % 3 == 0 || di >= ds.len() - 7 && ti >= texts.len() - 90 { pairs.push((ti, di)); } } }
        (texts, ds, pairs)
    }
    /// one process = one history: evaluates every pair in the order `order` (0 forward, 1 backward, 2 document-major, 3 shuffled) starting from a
    /// fresh process state and reports a digest of each result BY PAIR INDEX; the driver compares the digests of processes with different orders
    pub fn group_purity_x(tier: &str, seed: u64, only: Option<(usize, usize)>) -> Report {
        let mut rep = Report::new("purity_x");
        let (texts, ds, pairs) = purity_inputs(tier, seed);
        let (order, show) = only.unwrap_or((0, usize::MAX));
        let mut idx: Vec<usize> = (0..pairs.len()).collect();
        match order % 4 {
            1 => idx.reverse(),
            2 => idx.sort_by_key(|&k| (pairs[k].1, pairs[k].0)),
            3 => { let mut rng = Rng(seed.wrapping_mul(0x9E3779B97F4A7C15) | 1); for i in (1..idx.len()).rev() { let j = rng.below(i + 1); idx.swap(i, j); } }
            _ => {}
        }
        let mut dig: Vec<u64> = vec![0; pairs.len()];
        for &k in &idx {
            let (ti, di) = pairs[k];
            rep.evaluations += 1;
            let r: Result<Vec<String>, String> = run_text(&texts[ti], &ds[di]).map(|v| v.into_iter().map(|x| x.1).collect());
            let mut h: u64 = 0xcbf29ce484222325;
            for b in format!("{:?}", r).bytes() { h ^= b as u64; h = h.wrapping_mul(0x100000001b3); }
            dig[k] = h;
            if k == show { rep.samples.push(json!({"pair": k, "text": texts[ti], "doc": ds[di], "result": format!("{:?}", r), "order": order})); }
        }
        rep.nontrivial = pairs.len() as u64;
        rep.samples.push(json!({"digests": dig}));
        rep
    }
    pub fn group_purity(tier: &str, seed: u64, only: Option<(usize, usize)>) -> Report {
        let mut rep = Report::new("purity");
        let mut rng = Rng(seed.wrapping_mul(0xD1B54A32D192ED03) | 1);
        let thorough = tier == "thorough";
        let (texts, ds, mut pairs) = purity_inputs(tier, seed);
        let ds = &ds[..];
        // pairs in a fixed order
        if let Some(o) = only { pairs.retain(|p| *p == o); }
        // pass 1: first evaluation of every pair, in order
        let first: Vec<Res> = pairs.iter().map(|(ti, di)| { rep.evaluations += 1; run_text(&texts[*ti], &ds[*di]) }).collect();
        rep.nontrivial = first.iter().filter(|r| matches!(r, Ok(v) if !v.is_empty())).count() as u64;
        let w = |ti: usize, di: usize, a: &Res, b: &Res, how: &str| json!({"text": texts[ti], "doc": ds[di], "qi": ti, "di": di, "first": format!("{:?}", a), "again": format!("{:?}", b), "how": how});
        // pass 2: the same pairs in the opposite order (every pair now has a different history behind it)
        for (k, (ti, di)) in pairs.iter().enumerate().rev() {
            rep.evaluations += 1;
            let again = run_text(&texts[*ti], &ds[*di]);
            if again != first[k] { rep.fail("purity.history", &[], w(*ti, *di, &first[k], &again, "second evaluation, pairs visited in the opposite order")); }
        }
        // pass 3: immediate repetition and a shuffled order
        let mut order: Vec<usize> = (0..pairs.len()).collect();
        for i in (1..order.len()).rev() { let j = rng.below(i + 1); order.swap(i, j); }
        for &k in &order {
            let (ti, di) = pairs[k];
            rep.evaluations += 2;
            let a = run_text(&texts[ti], &ds[di]);
            let b = run_text(&texts[ti], &ds[di]);
            if a != first[k] { rep.fail("purity.history", &[], w(ti, di, &first[k], &a, "shuffled order")); }
            if b != a { rep.fail("purity.repeat", &[], w(ti, di, &a, &b, "immediate repetition")); }
        }
        // pass 4: parse once, evaluate on every document (and twice): equals parsing at every call
        for ti in 0..texts.len() {
            let q = match catch_unwind(AssertUnwindSafe(|| crate::parser::parse_json_path(&texts[ti]))) { Ok(Ok(q)) => q, _ => continue };
            for (k, (pti, di)) in pairs.iter().enumerate() {
                if *pti != ti { continue; }
                rep.evaluations += 2;
                let a = run_parsed(&q, &ds[*di]);
                let b = run_parsed(&q, &ds[*di]);
                if a != first[k] || b != first[k] { rep.fail("purity.parsed_once", &[], w(ti, *di, &first[k], if a != first[k] { &a } else { &b }, "query parsed once, then evaluated")); }
            }
        }
        // pass 5: one parsed query and one document shared by 8 threads, other threads evaluating other queries at the same time
        let nthreads = 8usize;
        let sample: Vec<usize> = (0..pairs.len()).filter(|k| k % (if thorough { 3 } else { 11 }) == 0).collect();
        for chunk in sample.chunks(4) {
            let parsed: Vec<Option<JpQuery>> = chunk.iter().map(|&k| crate::parser::parse_json_path(&texts[pairs[k].0]).ok()).collect();
            let results: Vec<Vec<(usize, Res)>> = std::thread::scope(|sc| {
                let hs: Vec<_> = (0..nthreads).map(|t| { let parsed = &parsed; let texts = &texts; let pairs = &pairs; sc.spawn(move || {
                    let mut out = vec![];
                    for round in 0..3 {
                        for (j, &k) in chunk.iter().enumerate() {
                            let jj = (j + t + round) % chunk.len();
                            let kk = chunk[jj];
                            let (ti, di) = pairs[kk];
                            let r = if (t + round) % 2 == 0 { match &parsed[jj] { Some(q) => run_parsed(q, &ds[di]), None => run_text(&texts[ti], &ds[di]) } } else { run_text(&texts[ti], &ds[di]) };
                            out.push((kk, r));
                            let _ = k;
                        }
                    }
                    out
                }) }).collect();
                hs.into_iter().map(|h| h.join().unwrap_or_default()).collect()
            });
            for rs in results { for (k, r) in rs {
                rep.evaluations += 1;
                if r != first[k] { let (ti, di) = pairs[k]; rep.fail("purity.threads", &[], w(ti, di, &first[k], &r, "8 threads sharing the parsed query and the document")); }
            } }
        }
        // pass 6: the entry points agree on every text, also on texts that are REJECTED (blank space around the expression, garbage): all
        // of js_path / query / query_only_path / query_with_path accept, or all reject   (cheap: also run when one pair is replayed)
        {
            use crate::JsonPath;
            let d = json!({"a": {"b": [1, 2]}, "k": [0, 1, 2]});
            let mut ts: Vec<String> = texts.iter().filter(|_| true).cloned().collect();
            for t in [" $.a", "$.a ", "$.a\n", "\n$.a", "\t$.k[0]", "$.k[0]\t", " $", "$ ", "", " ", "$.a.b[*]\n", "$..", "$[", "a", "$.a,", "$$"] { ts.push(t.to_string()); }
            for t in &ts {
                rep.evaluations += 1;
                let r = catch_unwind(AssertUnwindSafe(|| (js_path(t, &d).map(|v| v.len()).ok(), d.query(t).map(|v| v.len()).ok(), d.query_only_path(t).map(|v| v.len()).ok(), d.query_with_path(t).map(|v| v.len()).ok())));
                match r {
                    Ok((a, b, c, e)) => if !(a == b && b == c && c == e) { rep.fail("purity.entry_points_agree", &[], json!({"text": t, "doc": d, "js_path": a, "query": b, "query_only_path": c, "query_with_path": e, "detail": "number of nodes, None = Err"})); },
                    Err(_) => rep.fail("purity.entry_points_agree", &[], json!({"text": t, "doc": d, "detail": "panic"})),
                }
            }
        }
        // pass 7: LARGE results concurrently (a budget, counter or buffer shared between evaluations shows only when their combined size is large):
        // 8 threads each evaluate `$..*` and `$[*][*]` on a 400 x 400 table (160 400 nodes), results compared with the sequential ones
        {
            let table = Value::Array((0..400).map(|i| Value::Array((0..400).map(|j| json!(i * 400 + j)).collect())).collect());
            let seq: Vec<Res> = ["$..*", "$[*][*]"].iter().map(|t| run_text(t, &table).map(|v| vec![(v.len(), String::new())])).collect();
            let res: Vec<Vec<Res>> = std::thread::scope(|sc| {
                let hs: Vec<_> = (0..8).map(|_| { let table = &table; sc.spawn(move || ["$..*", "$[*][*]"].iter().map(|t| run_text(t, table).map(|v| vec![(v.len(), String::new())])).collect::<Vec<Res>>()) }).collect();
                hs.into_iter().map(|h| h.join().unwrap_or_default()).collect()
            });
            for rs in res { for (i, r) in rs.iter().enumerate() {
                rep.evaluations += 1;
                if *r != seq[i] { rep.fail("purity.threads", &[], json!({"text": (if i == 0 { "$..*" } else { "$[*][*]" }), "doc": "a 400 x 400 table of integers", "qi": 0, "di": 0, "sequential": format!("{:?}", seq[i]), "concurrent": format!("{:?}", r), "how": "8 threads, large results"})); }
            } }
        }
        rep.samples.push(json!({"texts": texts.len(), "documents": ds.len(), "pairs": pairs.len(), "threads": nthreads}));
        rep
    }

    // ---------------------------------------------------------------- C08: deep nesting (stack depth, parse time) — one probe per process
    pub const DEEP_PROBES: [&str; 9] = ["parens", "not_parens", "fn_nesting_valid", "fn_nesting_invalid", "nested_filters", "doc_descendant", "doc_eq", "segments", "cmp_nesting"];
    fn deep_array(depth: usize) -> Value { let mut v = json!(1); for _ in 0..depth { v = Value::Array(vec![v]); } v }
    pub fn deep_probe(probe: usize, d: usize) -> Value {
        use crate::JsonPath;
        let small = json!([{"a": 1}]);
        // (query text, document, expected: Some(n) = Ok with n nodes, None = Err)
        let (text, doc, want): (String, Value, Option<usize>) = match DEEP_PROBES[probe] {
            "parens" => (format!("$[?{}@.a{}]", "(".repeat(d), ")".repeat(d)), small, Some(1)),
            "not_parens" => (format!("$[?{}@.a{}]", "!(".repeat(2 * d), ")".repeat(2 * d)), small, Some(1)),
            "fn_nesting_valid" => (format!("$[?{}@.a{} == 1]", "value(".repeat(d), ")".repeat(d)), small, Some(1)),
            "fn_nesting_invalid" => (format!("$[?{}@ @{}]", "f(".repeat(d), ")".repeat(d)), small, None),
            "nested_filters" => (format!("$[?@{}]", "[?@".repeat(d) + &"]".repeat(d)), json!([deep_array(d + 1)]), Some(1)),
            "doc_descendant" => ("$..*".to_string(), deep_array(d), Some(d)),
            "doc_eq" => ("$[?@ == $[0]]".to_string(), json!([deep_array(d), deep_array(d), deep_array(d + 1)]), Some(2)),
            "segments" => (format!("${}", "[0]".repeat(d)), deep_array(d + 1), Some(1)),
            // `<=` whose operand is a function of a filter that contains the next `<=` ... : linear in the depth (an operand evaluated twice per level is 2^depth)
            "cmp_nesting" => { let mut f = "count(@.*) <= 9".to_string(); for _ in 0..d { f = format!("count(@[?{}]) <= 9", f); }
                               (format!("$[?{}]", f), json!([deep_array(d + 2)]), Some(1)) }
            _ => ("$".to_string(), small, Some(1)),
        };
        let t0 = std::time::Instant::now();
        let got = doc.query(&text).map(|v| v.len());
        let secs = t0.elapsed().as_secs_f64();
        let outcome = match (&got, want) { (Ok(n), Some(w)) if *n == w => "ok", (Err(_), None) => "ok", _ => "wrong" };
        let r = json!({"probe": DEEP_PROBES[probe], "depth": d, "outcome": outcome, "seconds": secs, "query_len": text.len(),
                       "observed": match &got { Ok(n) => json!({"ok_nodes": n}), Err(e) => json!({"err": e.to_string().chars().take(80).collect::<String>()}) },
                       "expected": match want { Some(n) => json!({"ok_nodes": n}), None => json!("Err") }});
        std::mem::forget(doc);   // dropping a deep serde_json::Value recurses in serde_json (not the code under test)
        r
    }

    // ---------------------------------------------------------------- C03: a reported path, run as a query, returns exactly that node
    pub fn group_requery(tier: &str, seed: u64, only: Option<(usize, usize)>) -> Report {
        let mut rep = Report::new("requery");
        let ds = docs(if tier == "thorough" { 200 } else { 30 }, seed);
        for (di, d) in ds.iter().enumerate() {
            if let Some((_, b)) = only { if di != b { continue; } }
            // every node of the document, with its RFC normalized path
            let mut all = vec![];
            descendants(&N { v: d, path: "$".to_string(), kpath: "$".to_string() }, &mut all);
            let feats = features(&[], d);
            let mut seen = std::collections::BTreeSet::new();
            for n in &all {
                rep.evaluations += 1;
                rep.nontrivial += 1;
                if !seen.insert(n.path.clone()) { rep.fail("path.injective", &feats, json!({"doc": d, "di": di, "path": n.path})); }
                match catch_unwind(AssertUnwindSafe(|| js_path(&n.path, d))) {
                    Ok(Ok(v)) => {
                        let ok = v.len() == 1 && std::ptr::eq(v[0].clone().val(), n.v) && v[0].clone().path() == n.path;
                        if !ok { rep.fail("path.requery", &feats, json!({"doc": d, "di": di, "path": n.path, "observed": v.iter().map(|r| r.clone().path()).collect::<Vec<_>>()})); }
                    }
                    Ok(Err(e)) => rep.fail("path.requery", &feats, json!({"doc": d, "di": di, "path": n.path, "observed": format!("Err({})", e)})),
                    Err(_) => rep.fail("path.requery", &feats, json!({"doc": d, "di": di, "path": n.path, "observed": "panic"})),
                }
            }
            if rep.samples.len() < 3 && all.len() > 3 { rep.samples.push(json!({"doc": d, "paths": all.iter().map(|n| n.path.clone()).collect::<Vec<_>>()})); }
        }
        rep
    }

    // ---------------------------------------------------------------- per-unit contracts of the ASSUMED units
    fn ptr_seq<T: Queryable>(d: Data<T>) -> Vec<(usize, String)> {
        match d { Data::Ref(p) => vec![(p.inner as *const T as usize, p.path)], Data::Refs(v) => v.into_iter().map(|p| (p.inner as *const T as usize, p.path)).collect(), _ => vec![] }
    }
    #[cfg(not(feature = "vx_seg"))]
    pub fn group_descendant(_tier: &str, _seed: u64, _only: Option<(usize, usize)>) -> Report { Report::unavailable("descendant", "vx_seg") }
    #[cfg(feature = "vx_seg")]
    /// process_descendant.preorder: the container nodes of descendants-or-self, in document pre-order, with their paths
    pub fn group_descendant(tier: &str, seed: u64, only: Option<(usize, usize)>) -> Report {
        let mut rep = Report::new("descendant");
        let ds = docs(if tier == "thorough" { 400 } else { 60 }, seed);
        for (di, d) in ds.iter().enumerate() {
            if let Some((_, b)) = only { if di != b { continue; } }
            rep.evaluations += 1;
            let mut all = vec![];
            descendants(&N { v: d, path: "$".to_string(), kpath: "$".to_string() }, &mut all);
            let want: Vec<(usize, String)> = all.iter().filter(|n| n.v.is_array() || n.v.is_object()).map(|n| (n.v as *const Value as usize, n.path.clone())).collect();
            let got = catch_unwind(AssertUnwindSafe(|| ptr_seq(crate::query::segment::verif_x::process_descendant(Pointer::new(d, "$".to_string())))));
            let feats = features(&[], d);
            match got {
                Err(_) => rep.fail("process_descendant.no_panic", &feats, json!({"doc": d, "di": di})),
                Ok(g) => {
                    if !want.is_empty() { rep.nontrivial += 1; }
                    let (gi, wi): (Vec<usize>, Vec<usize>) = (g.iter().map(|x| x.0).collect(), want.iter().map(|x| x.0).collect());
                    if gi != wi { rep.fail("process_descendant.preorder", &feats, json!({"doc": d, "di": di, "observed": g.iter().map(|x| &x.1).collect::<Vec<_>>(), "expected": want.iter().map(|x| &x.1).collect::<Vec<_>>()})); }
                    else if g != want { rep.fail("process_descendant.path", &feats, json!({"doc": d, "di": di, "observed": g.iter().map(|x| &x.1).collect::<Vec<_>>(), "expected": want.iter().map(|x| &x.1).collect::<Vec<_>>()})); }
                }
            }
        }
        rep
    }
    #[cfg(not(feature = "vx_seg"))]
    pub fn group_selectors(_tier: &str, _seed: u64, _only: Option<(usize, usize)>) -> Report { Report::unavailable("selectors", "vx_seg") }
    #[cfg(feature = "vx_seg")]
    /// process_selectors: members (multiset) and order (per input node, selectors in written order)
    pub fn group_selectors(tier: &str, seed: u64, only: Option<(usize, usize)>) -> Report {
        let mut rep = Report::new("selectors");
        let ds = docs(if tier == "thorough" { 200 } else { 30 }, seed);
        let mut rng = Rng(seed.wrapping_mul(77) | 1);
        let fs = filters(&mut rng, 10);
        let mut sels = plain_selectors();
        sels.extend(fs.iter().take(12).map(|f| Selector::Filter(f.clone())));
        let mut combos: Vec<Vec<Selector>> = vec![];
        for a in &sels { for b in &sels { combos.push(vec![a.clone(), b.clone()]); } }
        for _ in 0..40 { combos.push(vec![sels[rng.below(sels.len())].clone(), sels[rng.below(sels.len())].clone(), sels[rng.below(sels.len())].clone()]); }
        for (ci, c) in combos.iter().enumerate() {
            for (di, d) in ds.iter().enumerate() {
                if let Some((a, b)) = only { if (ci, di) != (a, b) { continue; } } else if (ci + di) % 5 != 0 { continue; }
                rep.evaluations += 1;
                // input nodelist: the children of the document (several input nodes) or the root alone
                let ctx = Ctx::new(d);
                let input: Vec<N<Value>> = { let r = N { v: d, path: "$".to_string(), kpath: "$".to_string() }; let mut v = children(&r); if v.is_empty() { v.push(r); } v };
                let want: Vec<(usize, String)> = input.iter().flat_map(|n| c.iter().flat_map(|s| ctx.select(s, n)).collect::<Vec<_>>()).map(|n| (n.v as *const Value as usize, n.path)).collect();
                let st = State::data(d, Data::Refs(input.iter().map(|n| Pointer::new(n.v, n.path.clone())).collect()));
                let got = catch_unwind(AssertUnwindSafe(|| ptr_seq(crate::query::segment::verif_x::process_selectors(st, c).data)));
                let mut feats = features(&[Segment::Selectors(c.clone())], d);
                if input.len() <= 1 { feats.retain(|f| f != "multi-selector-segment"); }
                let w = |g: &Vec<(usize, String)>| json!({"selectors": format!("{:?}", c), "doc": d, "qi": ci, "di": di, "observed": g.iter().map(|x| &x.1).collect::<Vec<_>>(), "expected": want.iter().map(|x| &x.1).collect::<Vec<_>>()});
                match got {
                    Err(_) => rep.fail("process_selectors.no_panic", &feats, w(&vec![])),
                    Ok(g) => {
                        if !want.is_empty() { rep.nontrivial += 1; }
                        let (mut gi, mut wi): (Vec<usize>, Vec<usize>) = (g.iter().map(|x| x.0).collect(), want.iter().map(|x| x.0).collect());
                        let same = gi == wi;
                        gi.sort(); wi.sort();
                        if gi != wi { rep.fail("process_selectors.members", &feats, w(&g)); }
                        else if !same {
                            let kf: Vec<usize> = c.iter().flat_map(|s| input.iter().flat_map(|n| ctx.select(s, n)).collect::<Vec<_>>()).map(|n| n.v as *const Value as usize).collect();
                            let mut f = feats.clone();
                            if kf != g.iter().map(|x| x.0).collect::<Vec<_>>() { f.retain(|x| x != "multi-selector-segment"); f.push("order-differs-from-known-union-order".to_string()); }
                            rep.fail("process_selectors.order", &f, w(&g));
                        }
                    }
                }
            }
        }
        rep
    }
    #[cfg(not(feature = "vx_ptr"))]
    pub fn group_pointer_text(_tier: &str, _seed: u64, _only: Option<(usize, usize)>) -> Report { Report::unavailable("pointer_text", "vx_ptr") }
    #[cfg(feature = "vx_ptr")]
    /// Pointer::key / Pointer::idx build the RFC 9535 2.7 step for the member name / index they are given
    pub fn group_pointer_text(_tier: &str, _seed: u64, _only: Option<(usize, usize)>) -> Report {
        let mut rep = Report::new("pointer_text");
        let v = json!(null);
        let names = ["a", "ab", "a b", "", "0", "é", "𝄞", "a'b", "'", "\\", "a\\b", "\n", "e\nf", "\t", "\u{1}", "\u{7f}", "\"", "\"d\"", "'q'", "a/b", "~", "[", "]", "$",
                     // code points whose LOW BYTE is an ASCII character that matters in a path (' \\ " / [ ] LF TAB NUL DEL): a classification by byte must not see them
                     "\u{127}", "\u{15c}", "\u{5c27}", "\u{4e5c}", "\u{122}", "\u{12f}", "\u{15b}", "\u{15d}", "\u{10a}", "\u{109}", "\u{100}", "\u{17f}", "\u{127}ob\u{17c}", "a\u{5c27}b"];
        let parents = ["$", "$['x']", "$[0]", ""];
        for (ni, n) in names.iter().enumerate() {
            for p in parents {
                rep.evaluations += 1; rep.nontrivial += 1;
                let got = Pointer::key(&v, p.to_string(), n).path;
                let want = key_path(p, n);
                let mut feats = vec![];
                if escape_name(n) != *n { feats.push("member-name-needs-escaping".to_string()); }
                if n.len() >= 2 && n.starts_with('\'') && n.ends_with('\'') { feats.push("member-name-looks-quoted".to_string()); }
                // the finding covers one specific wrong text (the name copied verbatim): anything else is a different violation
                if got != want && got != known_key_path(p, n) { feats.clear(); feats.push("path-differs-from-known-path-text".to_string()); }
                if got != want { rep.fail("Pointer::key.text", &feats, json!({"parent": p, "name": n, "qi": ni, "observed": got, "expected": want})); }
            }
        }
        for k in [0usize, 1, 9, 10, 123, 9007199254740991] {
            for p in parents {
                rep.evaluations += 1; rep.nontrivial += 1;
                let got = Pointer::idx(&v, p.to_string(), k).path;
                if got != idx_path(p, k) { rep.fail("Pointer::idx.text", &[], json!({"parent": p, "index": k, "observed": got, "expected": idx_path(p, k)})); }
            }
        }
        rep.samples.push(json!({"parent": "$", "name": "a", "expected": key_path("$", "a")}));
        rep
    }
    #[cfg(not(feature = "vx_sel"))]
    pub fn group_name_lookup(_tier: &str, _seed: u64, _only: Option<(usize, usize)>) -> Report { Report::unavailable("name_lookup", "vx_sel") }
    #[cfg(feature = "vx_sel")]
    /// process_key: the member denoted by the TEXT of a name selector, with the path of that member
    pub fn group_name_lookup(_tier: &str, _seed: u64, _only: Option<(usize, usize)>) -> Report {
        let mut rep = Report::new("name_lookup");
        let doc = json!({"a": 1, "ab": 2, "a b": 3, "": 4, "é": 5, "a'b": 6, "\\": 7, "e\nf": 8, "\"d\"": 9, "'q'": 10, "a/b": 11, "\t": 12, "\\t": 13, "☺": 14, "a\"b": 15, "0": 16, "a\\/b": 17, "\\\\": 18, "\\/": 19, "/": 20, "'a'": 21, "\u{e9}\u{e9}": 22, "'a": 23, "dogs'": 24, "'": 25, "dogs": 26});
        let texts = ["a", "ab", "é", "0", "'a'", "\"a\"", "'a b'", "\"a b\"", "''", "\"\"", "'é'", "'a\\'b'", "\"a'b\"", "'\\\\'", "'e\\nf'", "'\\t'",
                     "'\\u0061'", "'\\u263A'", "'\\u263a'", "'a\\/b'", "'a\"b'", "\"a\\\"b\"", "'zz'", "zz", "'\\\"d\\\"'",
                     "'a\\\\/b'", "'\\\\\\\\'", "'\\\\/'", "'\\/'", "\"'a'\"", "\"'q'\"", "'\\u00E9'", "'\\u00E9\\u00E9'", "'\\u00e9'", "'a\\u0020b'", "'\\uD83D\\uDE00'", "'\\'a'", "'dogs\\''", "'\\''", "\"'a\"", "\"dogs'\"", "'\\uD834\\uDD1E'", "'\\uDC00'",
                     // blank space inside the quotes is part of the name (the document has `a`, `ab`, `a b` but none of these)
                     "' a'", "'a '", "' a '", "\" a\"", "'ab '", "'  '", "' a b'", "'a  b'", "'\ta'",
                     // names of hand-built ASTs with a quote character at ONE end (not quoted texts): looked up verbatim
                     "dogs'", "'a", "a'b"];
        for (ti, t) in texts.iter().enumerate() {
            rep.evaluations += 1;
            let want: Vec<(usize, String)> = match name_of(t) {
                Some(nm) => doc.as_object().unwrap().iter().filter(|(k, _)| **k == nm).map(|(k, v)| (v as *const Value as usize, key_path("$", k))).collect(),
                None => vec![],
            };
            let got = catch_unwind(AssertUnwindSafe(|| ptr_seq(crate::query::selector::process_key(Pointer::new(&doc, "$".to_string()), t))));
            // what the implementation is known to do with this text (the findings on escapes / quotes cover exactly that)
            let known: Vec<(usize, String)> = { let k = known_lookup_key(t); doc.as_object().unwrap().iter().filter(|(m, _)| **m == k).map(|(_, v)| (v as *const Value as usize, known_key_path("$", t))).collect() };
            let mut feats = vec![];
            if t.starts_with('"') { feats.push("double-quoted-name-selector".to_string()); }
            if t.contains('\\') { feats.push("escape-in-name-selector".to_string()); }
            feats.extend(escape_kinds(t));
            if !want.is_empty() { rep.nontrivial += 1; }
            match got {
                Err(_) => rep.fail("process_key.no_panic", &feats, json!({"selector_text": t, "qi": ti})),
                Ok(g) => {
                    let (gi, wi): (Vec<usize>, Vec<usize>) = (g.iter().map(|x| x.0).collect(), want.iter().map(|x| x.0).collect());
                    if g != want && g != known { feats.clear(); feats.push("differs-from-known-name-lookup".to_string()); }
                    if gi != wi { rep.fail(if gi.is_empty() { "process_key.member" } else { "process_key.wrong_member" }, &feats, json!({"selector_text": t, "qi": ti, "observed": g.iter().map(|x| &x.1).collect::<Vec<_>>(), "expected": want.iter().map(|x| &x.1).collect::<Vec<_>>()})); }
                    else if g != want && !(name_of(t).as_deref() == Some(*t) && t.contains('\'')) {   // (the path text of names that need escaping: pointer_text)
                        rep.fail("process_key.path", &feats, json!({"selector_text": t, "qi": ti, "observed": g.iter().map(|x| &x.1).collect::<Vec<_>>(), "expected": want.iter().map(|x| &x.1).collect::<Vec<_>>()})); }
                }
            }
        }
        rep.samples.push(json!({"selector_text": "'a b'", "member": name_of("'a b'")}));
        rep
    }
    #[cfg(not(feature = "vx_fn"))]
    pub fn group_regex(_tier: &str, _seed: u64, _only: Option<(usize, usize)>) -> Report { Report::unavailable("regex", "vx_fn") }
    #[cfg(feature = "vx_fn")]
    /// regex: match = the entire string matches, search = some substring matches, non-strings / invalid patterns -> false
    pub fn group_regex(_tier: &str, _seed: u64, _only: Option<(usize, usize)>) -> Report {
        let mut rep = Report::new("regex");
        let root = json!(null);
        let subjects = [json!("ab"), json!("xb"), json!("ax"), json!("a"), json!("b"), json!(""), json!("abc"), json!("aXb"), json!("é"), json!("a\nb"), json!("1"), json!("a.b"), json!("^a$"), json!("a$"), json!("ba"), json!("bb"), json!("a\\b"), json!("\\"), json!("\\\\"), json!("C:\\dir"), json!("C:5ir"), json!("+"), json!("abcdefgh"), json!("."), json!("b."), json!("x.y"), json!("xay"), json!("x,y"), json!("A"), json!("a\rb"), json!("éééééééé"), json!("abc"),
                        json!(1), json!(null), json!(true), json!(["a"]), json!({"a": "a"})];
        let patterns = [json!("a|b"), json!("a"), json!("a."), json!("^a"), json!("b$"), json!("^a$|b"), json!("[ab]+"), json!("a*"), json!(".*"), json!("\\."), json!("a\\.b"), json!("é"), json!("\\p{L}"),
                        json!("(a|b)c?"), json!("a|ab"), json!("(a|ab)c?"), json!("a?|ab"), json!("ab|a"), json!("'"), json!("\""), json!("'é"), json!("'a'"), json!("[^a]"), json!("a{2}"), json!("("), json!("[a"), json!(1), json!(null), json!(""), json!("^$"), json!("\\^a\\$"),
                        json!("^a|b$"), json!("^a\\$"), json!("^a|^b"), json!("^ab$"), json!("^(a|b)$"), json!("^a|b"), json!("a|b$"), json!("^a$|^b$"), json!("^.$"), json!("^a\\$|b$"),
                        json!("\\w{3,16}"), json!("\\p{L}{8}"), json!("\\w{1,20}"), json!("[\\p{L}\\p{N}]{1,12}"), json!("a\\\\b"), json!("\\\\+"), json!("C:\\\\dir"), json!("\\\\\\\\"),
                        // round 5: a dot inside a character class is a literal dot; Unicode classes on ASCII subjects
                        json!("[.]"), json!("[^.]+"), json!("x[.,]y"), json!("[a.]+"), json!("x.y"), json!("\\p{Lu}"), json!("[a\u{e9}]"), json!("[^\u{e9}]"), json!("a.b"), json!("[.]|a")];
        for (si, s) in subjects.iter().enumerate() {
            for (pi, p) in patterns.iter().enumerate() {
                for search in [false, true] {
                    rep.evaluations += 1;
                    let want = match (s.as_str(), p.as_str()) { (Some(s), Some(p)) => if search { regex_find(s, p) } else { regex_full(s, p) }, _ => false };
                    if want { rep.nontrivial += 1; }
                  // the subject as a document node and the pattern as a computed value, and the other way round (a literal subject)
                  for shape in 0..2 {
                    if shape == 1 { rep.evaluations += 1; if want { rep.nontrivial += 1; } }
                    let (ls, rs) = if shape == 0 { (State::data(&root, Data::Ref(Pointer::new(s, "$".to_string()))), State::data(&root, Data::Value(p.clone()))) }
                                   else { (State::data(&root, Data::Value(s.clone())), State::data(&root, Data::Ref(Pointer::new(p, "$".to_string())))) };
                    let got = catch_unwind(AssertUnwindSafe(|| crate::query::test_function::verif_x::regex(ls, rs, search).ok_val()));
                    let ob = if search { "regex.search" } else { "regex.match" };
                    // the finding on escaped backslashes in patterns covers exactly one behaviour: the pattern with `\\\\` collapsed to `\\`
                    let known = match (s.as_str(), p.as_str()) { (Some(s), Some(p)) => { let kp = known_pattern(p); if search { regex_find(s, &kp) } else { regex_full(s, &kp) } }, _ => false };
                    let has_bs = p.as_str().map_or(false, |p| p.contains("\\\\"));
                    match got {
                        Ok(Some(Value::Bool(b))) if b == want => {}
                        Err(_) => rep.fail("regex.no_panic", &[], json!({"subject": s, "pattern": p, "qi": si, "di": pi, "search": search})),
                        other => { let obs = other.ok().flatten();
                                   let f: Vec<String> = if has_bs && obs == Some(Value::Bool(known)) { vec!["pattern-with-escaped-backslash".to_string()] } else { vec![] };
                                   rep.fail(ob, &f, json!({"subject": s, "pattern": p, "qi": si, "di": pi, "observed": format!("{:?}", obs), "expected": want, "subject_is": if shape == 0 { "node" } else { "value" }})) }
                    }
                  }
                }
            }
        }
        // many DISTINCT patterns in a row in one thread, invalid ones first (a cache or table of compiled patterns must survive any number of them)
        for i in 0..400usize {
            for (kind, pat) in [("invalid", format!("(a{}", i)), ("valid", format!("a{{{}}}", i % 7))] {
                rep.evaluations += 1;
                let (sv, pv) = (json!("aaa"), json!(pat));
                let (ls, rs) = (State::data(&root, Data::Ref(Pointer::new(&sv, "$".to_string()))), State::data(&root, Data::Ref(Pointer::new(&pv, "$".to_string()))));
                let want = if kind == "invalid" { false } else { regex_find("aaa", &pat) };
                match catch_unwind(AssertUnwindSafe(|| crate::query::test_function::verif_x::regex(ls, rs, true).ok_val())) {
                    Ok(Some(Value::Bool(b))) if b == want => {}
                    Err(_) => rep.fail("regex.no_panic", &[], json!({"subject": "aaa", "pattern": pat, "qi": 10_000 + i, "di": 0, "detail": "panic on the i-th distinct pattern of a sequence", "i": i})),
                    other => rep.fail("regex.search", &[], json!({"subject": "aaa", "pattern": pat, "qi": 10_000 + i, "di": 0, "observed": format!("{:?}", other.ok().flatten()), "expected": want})),
                }
            }
        }
        rep.samples.push(json!({"subject": "ab", "pattern": "a|b", "match": regex_full("ab", "a|b"), "search": regex_find("ab", "a|b")}));
        rep
    }
    #[cfg(not(feature = "vx_cmp"))]
    pub fn group_cmp_struct(_tier: &str, _seed: u64, _only: Option<(usize, usize)>) -> Report { Report::unavailable("cmp_struct", "vx_cmp") }
    #[cfg(feature = "vx_cmp")]
    /// eq / lt on structured and string operands (the part the Kani harness cannot reach)
    pub fn group_cmp_struct(_tier: &str, _seed: u64, _only: Option<(usize, usize)>) -> Report {
        let mut rep = Report::new("cmp_struct");
        let root = json!(null);
        let vals = [json!(null), json!(true), json!(false), json!(0), json!(1), json!(1.0), json!(1.5), json!(-1), json!(""), json!("a"), json!("b"), json!("ab"), json!("B"), json!("é"), json!("z"), json!("𝄞"), json!("\u{ffff}"),
                    json!([]), json!([1]), json!([1.0]), json!([1, 2]), json!([2, 1]), json!(["a"]), json!([[1]]), json!([[1.0]]), json!({}), json!({"a": 1}), json!({"a": 1.0}), json!({"a": 1, "b": 2}), json!({"b": 2, "a": 1}), json!({"a": [1]}),
                    json!({"'a'": 1}), json!({"\"a\"": 1}), json!({"'": 1}), json!({"'a'": 1, "a": 2}), json!({"a": {"'k'": [1]}}), json!({"a": {"'k'": [1.0]}}), json!([{"'a'": 1}]), json!({"a\\/b": 1}), json!({"a/b": 1}),
                    json!(9007199254740993i64), json!(9007199254740992i64), json!(9007199254740992.0)];
        for (ai, a) in vals.iter().enumerate() {
            for (bi, b) in vals.iter().enumerate() {
                rep.evaluations += 1;
                rep.nontrivial += 1;
                let mut feats = vec![];
                let pair = json!([a, b]);
                if doc_has_nested_mixed_numbers(&json!([pair])) && (a.is_array() || a.is_object()) { feats.push("int-and-float-inside-containers".to_string()); }
                fn mk<'x>(root: &'x Value, v: &'x Value, as_ref: bool) -> State<'x, Value> {
                    if as_ref { State::data(root, Data::Ref(Pointer::new(v, "$".to_string()))) } else { State::data(root, Data::Value(v.clone())) }
                }
                for (ra, rb) in [(false, false), (true, false), (false, true), (true, true)] {
                    let e = crate::query::comparison::verif_x::eq(mk(&root, a, ra), mk(&root, b, rb));
                    let l = crate::query::comparison::verif_x::lt(mk(&root, a, ra), mk(&root, b, rb));
                    if e != json_eq(a, b) { rep.fail("eq.structural", &feats, json!({"lhs": a, "rhs": b, "qi": ai, "di": bi, "observed": e, "expected": json_eq(a, b)})); }
                    if l != json_lt(a, b) { rep.fail("lt.order", &feats, json!({"lhs": a, "rhs": b, "qi": ai, "di": bi, "observed": l, "expected": json_lt(a, b)})); }
                }
            }
        }
        // C15: the same contract at the second Queryable implementation, whose objects keep insertion order
        let o = |v: Vec<(&str, J)>| J::Obj(v.into_iter().map(|(k, x)| (k.to_string(), x)).collect());
        let jvals = vec![o(vec![("x", J::Int(1)), ("y", J::Int(2))]), o(vec![("y", J::Int(2)), ("x", J::Int(1))]), o(vec![("y", J::Float(2.0)), ("x", J::Int(1))]),
                         o(vec![("x", J::Int(1))]), o(vec![("x", J::Int(2)), ("y", J::Int(1))]), J::Arr(vec![o(vec![("a", J::Int(1)), ("b", J::Null)])]), J::Arr(vec![o(vec![("b", J::Null), ("a", J::Float(1.0))])]),
                         J::Null, J::Obj(vec![]), J::Arr(vec![]), J::Int(1), J::Float(1.0), J::Str("a".into())];
        let jroot = J::Null;
        for (ai, a) in jvals.iter().enumerate() {
            for (bi, b) in jvals.iter().enumerate() {
                rep.evaluations += 1; rep.nontrivial += 1;
                let st = |v: &J| State::data(&jroot, Data::Value(v.clone()));
                let e = crate::query::comparison::verif_x::eq(st(a), st(b));
                if e != json_eq(a, b) { rep.fail("eq.structural", &[], json!({"instance": "kjson::J", "lhs": format!("{:?}", a), "rhs": format!("{:?}", b), "qi": ai, "di": bi, "observed": e, "expected": json_eq(a, b)})); }
            }
        }
        rep.samples.push(json!({"lhs": [1], "rhs": [1.0], "json_eq": true}));
        rep
    }
    /// C14, the function itself: `<serde_json::Value as Queryable>::extension_custom(name, args)` on every pair (and some singletons and triples)
    /// of a value menu, owned and borrowed, against the set-membership reading of the property statement; plus the complement laws
    pub fn group_ext_direct(_tier: &str, _seed: u64, only: Option<(usize, usize)>) -> Report {
        use std::borrow::Cow;
        let mut rep = Report::new("ext_direct");
        let vals: Vec<Value> = vec![json!(null), json!(true), json!(false), json!(1), json!(2), json!(-1), json!(2.5), json!("a"), json!("b"), json!(""), json!([]), json!([1]), json!([2]), json!([1, 2]),
            json!([2, 1]), json!([1, 1]), json!([1, 2, 3]), json!(["a"]), json!(["a", 1]), json!([[1]]), json!([[1], [2]]), json!([[]]), json!([null]), json!([[1], 1]), json!({"a": 1}), json!([{"a": 1}]),
            json!([{"a": 1}, 1]), json!({}), json!([{}]), json!([true]), json!([1, "a", null, [1]]), json!([[1, 2]]), json!([[2, 1]]), json!(["1"]), json!("1")];
        let names = ["in", "nin", "none_of", "any_of", "subset_of", "foo", "IN", "", "in ", "anyOf"];
        let as_bool = |v: &Value| -> Option<bool> { match v { Value::Bool(b) => Some(*b), _ => None } };
        let mut idx = 0usize;
        let mut one = |rep: &mut Report, name: &str, args: Vec<&Value>, owned: bool, qi: usize, di: usize| {
            rep.evaluations += 1;
            let cows: Vec<Cow<Value>> = args.iter().map(|v| if owned { Cow::Owned((*v).clone()) } else { Cow::Borrowed(*v) }).collect();
            let want = ext_sets(name, &args);
            let w = |got: Value| json!({"function": name, "args": args, "owned": owned, "qi": qi, "di": di, "observed": got, "expected": match want { Some(b) => json!(b), None => json!(null) }});
            match catch_unwind(AssertUnwindSafe(|| <Value as Queryable>::extension_custom(name, cows))) {
                Err(_) => rep.fail("extension_custom.no_panic", &[], w(json!("panic"))),
                Ok(got) => {
                    if want.is_some() { rep.nontrivial += 1; }
                    // no result: anything that is not `true` (the test is false); a result: exactly that boolean
                    let ok = match want { Some(b) => as_bool(&got) == Some(b), None => as_bool(&got) != Some(true) };
                    if !ok { rep.fail("extension_custom.def", &[], w(got)); }
                }
            }
        };
        for (ni, name) in names.iter().enumerate() {
            for (ai, a) in vals.iter().enumerate() {
                for (bi, b) in vals.iter().enumerate() {
                    let (qi, di) = (ni, ai * vals.len() + bi);
                    if let Some(o) = only { if o != (qi, di) { continue; } }
                    one(&mut rep, name, vec![a, b], (ai + bi) % 2 == 0, qi, di);
                    idx += 1;
                }
                if only.is_none() {
                    one(&mut rep, name, vec![a], false, ni, 1_000_000 + ai);
                    one(&mut rep, name, vec![a, &vals[(ai + 11) % vals.len()], &vals[(ai + 3) % vals.len()]], true, ni, 2_000_000 + ai);
                }
            }
            if only.is_none() { one(&mut rep, name, vec![], false, ni, 3_000_000); }
        }
        // the laws the property states: nin = not in, none_of = not any_of (whenever both have a result), the empty array is a subset of any array
        if only.is_none() {
            let call = |n: &str, a: &Value, b: &Value| as_bool(&<Value as Queryable>::extension_custom(n, vec![Cow::Borrowed(a), Cow::Borrowed(b)]));
            for a in &vals { for b in &vals {
                rep.evaluations += 1;
                let w = |law: &str| json!({"law": law, "args": [a, b]});
                if b.is_array() && call("nin", a, b) != call("in", a, b).map(|x| !x) { rep.fail("extension_custom.laws", &[], w("nin == !in")); }
                if a.is_array() && b.is_array() && call("none_of", a, b) != call("any_of", a, b).map(|x| !x) { rep.fail("extension_custom.laws", &[], w("none_of == !any_of")); }
                if a.as_array().map(|x| x.is_empty()) == Some(true) && b.is_array() && call("subset_of", a, b) != Some(true) { rep.fail("extension_custom.laws", &[], w("[] subset_of anything")); }
                if !b.is_array() { for n in ["in", "nin", "none_of", "any_of", "subset_of"] { if call(n, a, b) == Some(true) { rep.fail("extension_custom.laws", &[], w("non-array second argument: false")); } } }
            } }
        }
        let _ = idx;
        rep.samples.push(json!({"function": "subset_of", "args": [[], [1]], "expected": true}));
        rep.samples.push(json!({"function": "in", "args": [[1], [1, [1]]], "expected": true}));
        rep
    }
    /// extension functions (in, nin, none_of, any_of, subset_of, unknown names) with present, missing and surplus arguments:
    /// evaluation must not panic and must return Ok (C08).  What they compute is C14 (not applicable here).
    pub fn group_custom(_tier: &str, _seed: u64, _only: Option<(usize, usize)>) -> Report {
        let mut rep = Report::new("custom");
        let docs = [json!({"elems": [1, [1], "a", null, {"a": 1}], "list": [1, "a"]}), json!({"elems": [1, [1, 2], []]}), json!({"elems": [{"a": [1]}, {"b": 1}], "list": 3}),
                    json!([1, 2]), json!({"list": []}), json!(null)];
        let rel = |segs: Vec<Segment>| FnArg::Test(Box::new(Test::RelQuery(segs)));
        let abs = |n: &str| FnArg::Test(Box::new(Test::AbsQuery(JpQuery::new(vec![Segment::Selector(Selector::Name(n.to_string()))]))));
        let nm = |n: &str| Segment::Selector(Selector::Name(n.to_string()));
        let arglists: Vec<Vec<FnArg>> = vec![
            vec![rel(vec![]), abs("list")], vec![rel(vec![nm("a")]), abs("list")], vec![rel(vec![]), abs("missing")], vec![rel(vec![nm("zz")]), abs("missing")],
            vec![rel(vec![])], vec![], vec![rel(vec![]), abs("list"), abs("list")], vec![FnArg::Literal(Literal::Int(1)), abs("list")],
            vec![rel(vec![Segment::Selector(Selector::Wildcard)]), abs("list")],
        ];
        for name in ["in", "nin", "none_of", "any_of", "subset_of", "foo"] {
            for (ai, args) in arglists.iter().enumerate() {
                let f = Filter::Atom(FilterAtom::Test { expr: Box::new(Test::Function(Box::new(TestFunction::Custom(name.to_string(), args.clone())))), not: false });
                for q in [JpQuery::new(vec![nm("elems"), Segment::Selector(Selector::Filter(f.clone()))]), JpQuery::new(vec![Segment::Selector(Selector::Filter(f.clone()))])] {
                    for (di, d) in docs.iter().enumerate() {
                        rep.evaluations += 1; rep.nontrivial += 1;
                        match catch_unwind(AssertUnwindSafe(|| js_path_process(&q, d).is_ok())) {
                            Err(_) => rep.fail("custom.no_panic", &[], json!({"function": name, "query": show(&q), "doc": d, "qi": ai, "di": di})),
                            Ok(false) => rep.fail("custom.ok", &[], json!({"function": name, "query": show(&q), "doc": d, "qi": ai, "di": di})),
                            Ok(true) => {}
                        }
                    }
                }
            }
        }
        // hand-built ASTs the parser never produces (the model types are public): an empty selector list, empty `||` / `&&`, an empty name,
        // a step-0 slice, an extension call without arguments - evaluation must not panic and must return Ok
        let odd: Vec<JpQuery> = vec![
            JpQuery::new(vec![Segment::Selectors(vec![])]),
            JpQuery::new(vec![Segment::Selector(Selector::Wildcard), Segment::Selectors(vec![])]),
            JpQuery::new(vec![Segment::Descendant(Box::new(Segment::Selectors(vec![])))]),
            JpQuery::new(vec![Segment::Selector(Selector::Filter(Filter::Or(vec![])))]),
            JpQuery::new(vec![Segment::Selector(Selector::Filter(Filter::And(vec![])))]),
            JpQuery::new(vec![Segment::Selector(Selector::Filter(Filter::Or(vec![Filter::And(vec![])])))]),
            JpQuery::new(vec![Segment::Selector(Selector::Name(String::new()))]),
            JpQuery::new(vec![Segment::Selector(Selector::Slice(Some(0), Some(0), Some(0)))]),
            JpQuery::new(vec![Segment::Selector(Selector::Filter(Filter::Atom(FilterAtom::Test { expr: Box::new(Test::RelQuery(vec![Segment::Selectors(vec![])])), not: false })))]),
            JpQuery::new(vec![Segment::Selector(Selector::Filter(Filter::Atom(FilterAtom::Test { expr: Box::new(Test::Function(Box::new(TestFunction::Custom(String::new(), vec![])))), not: true })))]),
        ];
        for (qi, q) in odd.iter().enumerate() {
            for (di, d) in docs.iter().chain([json!([[1, 2], {"a": 1}]), json!({"a": [1], "": 2})].iter()).enumerate() {
                rep.evaluations += 1;
                match catch_unwind(AssertUnwindSafe(|| js_path_process(q, d).is_ok())) {
                    Err(_) => rep.fail("custom.no_panic", &[], json!({"query": show(q), "doc": d, "qi": 1000 + qi, "di": di, "detail": "an AST outside the grammar"})),
                    Ok(false) => rep.fail("custom.ok", &[], json!({"query": show(q), "doc": d, "qi": 1000 + qi, "di": di})),
                    Ok(true) => {}
                }
            }
        }
        rep.samples.push(json!({"query": "$.elems[?in(@, $.list)]", "doc": docs[1]}));
        rep
    }
    #[cfg(not(feature = "vx_sel"))]
    pub fn group_arith(_tier: &str, _seed: u64, _only: Option<(usize, usize)>) -> Report { Report::unavailable("arith", "vx_sel") }
    #[cfg(feature = "vx_sel")]
    /// index / slice arithmetic on the real functions (counterexample search and replay for C11; mirror sanity)
    pub fn group_arith(tier: &str, _seed: u64, _only: Option<(usize, usize)>) -> Report {
        let mut rep = Report::new("arith");
        let big = 9007199254740991i64;
        let range: Vec<i64> = if tier == "thorough" { (-8..=8).collect() } else { (-4..=4).collect() };
        let mut opts: Vec<Option<i64>> = vec![None, Some(big), Some(-big)];
        opts.extend(range.iter().map(|x| Some(*x)));
        for len in 0..=(if tier == "thorough" { 6 } else { 4 }) {
            let doc = Value::Array((0..len).map(|i| json!(i)).collect());
            let arr = doc.as_array().unwrap();
            for i in range.iter().chain([big, -big].iter()) {
                rep.evaluations += 1;
                let want: Vec<usize> = rfc_index(len as i128, *i as i128).map(|k| vec![&arr[k as usize] as *const Value as usize]).unwrap_or_default();
                let got = catch_unwind(AssertUnwindSafe(|| ptr_seq(crate::query::selector::process_index(Pointer::new(&doc, "$".to_string()), i)).iter().map(|x| x.0).collect::<Vec<usize>>()));
                if !want.is_empty() { rep.nontrivial += 1; }
                match got {
                    Err(_) => rep.fail("process_index.no_panic", &[], json!({"len": len, "index": i})),
                    Ok(got) => if got != want { rep.fail("process_index.select", &[], json!({"len": len, "index": i})); }
                }
            }
            for s in &opts { for e in &opts { for st in &opts {
                rep.evaluations += 1;
                watch("arith", || format!("process_slice(len={}, start={:?}, end={:?}, step={:?})", len, s, e, st));
                let want: Vec<usize> = rfc_slice(len as i128, *s, *e, *st).iter().map(|k| &arr[*k as usize] as *const Value as usize).collect();
                let got = catch_unwind(AssertUnwindSafe(|| ptr_seq(crate::query::selector::verif_x::process_slice(Pointer::new(&doc, "$".to_string()), s, e, st)).iter().map(|x| x.0).collect::<Vec<usize>>()));
                if !want.is_empty() { rep.nontrivial += 1; }
                match got {
                    Err(_) => rep.fail("process_slice.no_panic", &[], json!({"len": len, "start": s, "end": e, "step": st})),
                    Ok(got) => if got != want { rep.fail("process_slice.select", &[], json!({"len": len, "start": s, "end": e, "step": st, "observed_len": got.len(), "expected_len": want.len()})); }
                }
            } } }
        }
        rep.samples.push(json!({"len": 5, "slice": [1, null, 2], "indices": rfc_slice(5, Some(1), None, Some(2)).iter().map(|x| *x as i64).collect::<Vec<_>>()}));
        rep
    }
}
