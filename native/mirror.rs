// ===== executable mirror of RFC 9535 (oracle of the bounded back end) =====
// Written from the RFC text over the crate's AST types; shares no code with the evaluator.
// Nodes are (pointer into the caller's document, normalized path).

pub mod mirror {
    use crate::parser::model::*;
    use crate::query::queryable::Queryable;

    #[derive(Clone, Debug)]
    pub struct N<'a, T> {
        pub v: &'a T,
        pub path: String,
        /// the path text the implementation is KNOWN to produce for this node where it differs from `path` (open findings on name
        /// escaping / quoting in paths: Pointer::key copies the name or the selector text unescaped); used only to tell those
        /// findings from any other wrong path
        pub kpath: String,
    }
    /// Pointer::key as recorded in the known findings: the key text is copied verbatim; it is wrapped in quotes unless it already looks single-quoted
    pub fn known_key_path(parent: &str, key: &str) -> String {
        if key.starts_with('\'') && key.ends_with('\'') { format!("{}[{}]", parent, key) } else { format!("{}['{}']", parent, key) }
    }

    // ---- RFC 9535 2.3.3 / 2.3.4.2.2 arithmetic (mirrors contracts/spec_arith.rs) ----
    pub fn rfc_index(len: i128, i: i128) -> Option<i128> {
        if i >= 0 { if i < len { Some(i) } else { None } } else if len + i >= 0 { Some(len + i) } else { None }
    }
    fn norm(i: i128, len: i128) -> i128 { if i >= 0 { i } else { len + i } }
    pub fn rfc_slice(len: i128, start: Option<i64>, end: Option<i64>, step: Option<i64>) -> Vec<i128> {
        let step = step.map(|v| v as i128).unwrap_or(1);
        let mut out = vec![];
        if step == 0 { return out; }
        let (lower, upper);
        if step > 0 {
            let s = start.map(|v| v as i128).unwrap_or(0);
            let e = end.map(|v| v as i128).unwrap_or(len);
            lower = norm(s, len).max(0).min(len);
            upper = norm(e, len).max(0).min(len);
            let mut i = lower;
            while i < upper { out.push(i); i += step; }
        } else {
            let s = start.map(|v| v as i128).unwrap_or(len - 1);
            let e = end.map(|v| v as i128).unwrap_or(-len - 1);
            upper = norm(s, len).max(-1).min(len - 1);
            lower = norm(e, len).max(-1).min(len - 1);
            let mut i = upper;
            while lower < i { out.push(i); i += step; }
        }
        out
    }

    // ---- RFC 9535 2.7 normalized paths ----
    pub fn escape_name(name: &str) -> String {
        let mut s = String::new();
        for c in name.chars() {
            match c {
                '\u{8}' => s.push_str("\\b"),
                '\t' => s.push_str("\\t"),
                '\n' => s.push_str("\\n"),
                '\u{c}' => s.push_str("\\f"),
                '\r' => s.push_str("\\r"),
                '\'' => s.push_str("\\'"),
                '\\' => s.push_str("\\\\"),
                c if (c as u32) < 0x20 => s.push_str(&format!("\\u{:04x}", c as u32)),
                c => s.push(c),
            }
        }
        s
    }
    pub fn key_path(parent: &str, name: &str) -> String { format!("{}['{}']", parent, escape_name(name)) }
    pub fn idx_path(parent: &str, k: usize) -> String { format!("{}[{}]", parent, k) }

    // ---- the member name denoted by the TEXT of a name selector as the parser stores it in Selector::Name ----
    // shorthand: the text itself; quoted: the string literal's content with RFC 9535 2.3.1.1 escapes decoded
    pub fn name_of(text: &str) -> Option<String> {
        let b: Vec<char> = text.chars().collect();
        let quoted = b.len() >= 2 && ((b[0] == '\'' && b[b.len() - 1] == '\'') || (b[0] == '"' && b[b.len() - 1] == '"'));
        if !quoted { return Some(text.to_string()); }
        let q = b[0];
        let inner = &b[1..b.len() - 1];
        let mut out = String::new();
        let mut i = 0;
        while i < inner.len() {
            let c = inner[i];
            if c == '\\' {
                i += 1;
                if i >= inner.len() { return None; }
                match inner[i] {
                    'b' => out.push('\u{8}'), 't' => out.push('\t'), 'n' => out.push('\n'),
                    'f' => out.push('\u{c}'), 'r' => out.push('\r'), '/' => out.push('/'), '\\' => out.push('\\'),
                    '\'' if q == '\'' => out.push('\''),
                    '"' if q == '"' => out.push('"'),
                    'u' => {
                        let hex = |k: usize| -> Option<u32> {
                            if k + 4 > inner.len() { return None; }
                            u32::from_str_radix(&inner[k..k + 4].iter().collect::<String>(), 16).ok()
                        };
                        let h = hex(i + 1)?;
                        i += 4;
                        if (0xD800..0xDC00).contains(&h) {
                            if i + 2 < inner.len() && inner[i + 1] == '\\' && inner[i + 2] == 'u' {
                                let l = hex(i + 3)?;
                                if !(0xDC00..0xE000).contains(&l) { return None; }
                                i += 6;
                                out.push(char::from_u32(0x10000 + ((h - 0xD800) << 10) + (l - 0xDC00))?);
                            } else { return None; }
                        } else { out.push(char::from_u32(h)?); }
                    }
                    _ => return None,
                }
                i += 1;
            } else {
                if c == q { return None; }
                out.push(c);
                i += 1;
            }
        }
        Some(out)
    }

    // ---- children / descendants ----
    pub fn children<'a, T: Queryable>(n: &N<'a, T>) -> Vec<N<'a, T>> {
        if let Some(a) = n.v.as_array() {
            a.iter().enumerate().map(|(k, e)| N { v: e, path: idx_path(&n.path, k), kpath: idx_path(&n.kpath, k) }).collect()
        } else if let Some(o) = n.v.as_object() {
            o.into_iter().map(|(k, e)| N { v: e, path: key_path(&n.path, k), kpath: known_key_path(&n.kpath, k) }).collect()
        } else { vec![] }
    }
    pub fn descendants<'a, T: Queryable>(n: &N<'a, T>, out: &mut Vec<N<'a, T>>) {
        out.push(n.clone());
        for c in children(n) { descendants(&c, out); }
    }

    // ---- comparisons (RFC 9535 2.3.5.2.2) ----
    #[derive(Clone, Copy, PartialEq, Debug)]
    pub enum O3 { Lt, Eq, Gt }
    fn o128(a: i128, b: i128) -> O3 { if a < b { O3::Lt } else if a == b { O3::Eq } else { O3::Gt } }
    /// exact order of an i64 and a finite f64 by bit decomposition (no rounding)
    pub fn cmp_i_f(i: i64, f: f64) -> O3 {
        let bits = f.to_bits();
        let neg = (bits >> 63) != 0;
        let ef = ((bits >> 52) & 0x7ff) as i32;
        let frac = (bits & 0x000f_ffff_ffff_ffff) as i128;
        let (m, e) = if ef == 0 { (frac, -1074i32) } else { (frac | (1i128 << 52), ef - 1075) };
        if m == 0 { return o128(i as i128, 0); }
        let sm = if neg { -m } else { m };
        if e >= 0 {
            if e > 64 { return if neg { O3::Gt } else { O3::Lt }; }
            o128(i as i128, sm << (e as u32))
        } else {
            let k = -e;
            if k >= 64 { return if i > 0 { O3::Gt } else if i < 0 { O3::Lt } else if neg { O3::Gt } else { O3::Lt }; }
            o128((i as i128) << (k as u32), sm)
        }
    }
    #[derive(Clone, Copy, Debug)]
    pub enum Num { I(i64), F(f64) }
    pub fn num_of<T: Queryable>(v: &T) -> Option<Num> {
        if v.as_str().is_some() || v.as_bool().is_some() || v.as_array().is_some() || v.as_object().is_some() { return None; }
        if let Some(i) = v.as_i64() { return Some(Num::I(i)); }
        v.as_f64().map(Num::F)
    }
    pub fn num_cmp(a: Num, b: Num) -> O3 {
        match (a, b) {
            (Num::I(x), Num::I(y)) => o128(x as i128, y as i128),
            (Num::I(x), Num::F(y)) => cmp_i_f(x, y),
            (Num::F(x), Num::I(y)) => match cmp_i_f(y, x) { O3::Lt => O3::Gt, O3::Eq => O3::Eq, O3::Gt => O3::Lt },
            (Num::F(x), Num::F(y)) => if x < y { O3::Lt } else if x == y { O3::Eq } else { O3::Gt },
        }
    }
    pub fn is_null<T: Queryable>(v: &T) -> bool {
        v.as_str().is_none() && v.as_bool().is_none() && v.as_array().is_none() && v.as_object().is_none() && num_of(v).is_none()
    }
    /// same JSON value: numbers mathematically, arrays/objects structurally (members as a set of name/value pairs)
    pub fn json_eq<T: Queryable>(a: &T, b: &T) -> bool {
        if let (Some(x), Some(y)) = (num_of(a), num_of(b)) { return num_cmp(x, y) == O3::Eq; }
        if let (Some(x), Some(y)) = (a.as_str(), b.as_str()) { return x == y; }
        if let (Some(x), Some(y)) = (a.as_bool(), b.as_bool()) { return x == y; }
        if let (Some(x), Some(y)) = (a.as_array(), b.as_array()) {
            return x.len() == y.len() && x.iter().zip(y.iter()).all(|(p, q)| json_eq(p, q));
        }
        if let (Some(x), Some(y)) = (a.as_object(), b.as_object()) {
            return x.len() == y.len() && x.iter().all(|(k, p)| y.iter().any(|(k2, q)| k == k2 && json_eq(*p, *q)));
        }
        is_null(a) && is_null(b)
    }
    pub fn json_lt<T: Queryable>(a: &T, b: &T) -> bool {
        if let (Some(x), Some(y)) = (num_of(a), num_of(b)) { return num_cmp(x, y) == O3::Lt; }
        if let (Some(x), Some(y)) = (a.as_str(), b.as_str()) {
            // Unicode scalar value order
            return x.chars().map(|c| c as u32).lt(y.chars().map(|c| c as u32));
        }
        false
    }

    /// a comparable / argument value: owned (literal, function result) or a node of the document
    pub enum V<'a, T> { Own(T), Node(&'a T) }
    impl<'a, T> V<'a, T> { pub fn get(&self) -> &T { match self { V::Own(v) => v, V::Node(v) => v } } }

    pub struct Ctx<'a, T> { pub root: &'a T, pub union_multi: std::cell::Cell<bool>, pub ext_multi: std::cell::Cell<bool>,
                            /// false: RFC 9535 (per input node, the selectors in order). true: the order recorded as known finding KF-C02-union-order
                            /// (per selector over the WHOLE input list) - used only to tell that finding from any other wrong order
                            pub by_selector: bool }
    impl<'a, T> Ctx<'a, T> { pub fn new(root: &'a T) -> Self { Ctx { root, union_multi: std::cell::Cell::new(false), ext_multi: std::cell::Cell::new(false), by_selector: false } }
                             pub fn known_union_order(root: &'a T) -> Self { Ctx { root, union_multi: std::cell::Cell::new(false), ext_multi: std::cell::Cell::new(false), by_selector: true } } }

    impl<'a, T: Queryable> Ctx<'a, T> {
        pub fn select(&self, s: &Selector, n: &N<'a, T>) -> Vec<N<'a, T>> {
            match s {
                Selector::Name(text) => {
                    let name = match name_of(text) { Some(x) => x, None => return vec![] };
                    match n.v.as_object() {
                        Some(o) => o.into_iter().filter(|(k, _)| **k == name).map(|(k, e)| N { v: e, path: key_path(&n.path, k), kpath: known_key_path(&n.kpath, text) }).collect(),
                        None => vec![],
                    }
                }
                Selector::Wildcard => children(n),
                Selector::Index(i) => match n.v.as_array() {
                    Some(a) => match rfc_index(a.len() as i128, *i as i128) {
                        Some(k) => vec![N { v: &a[k as usize], path: idx_path(&n.path, k as usize), kpath: idx_path(&n.kpath, k as usize) }],
                        None => vec![] },
                    None => vec![],
                },
                Selector::Slice(s, e, st) => match n.v.as_array() {
                    Some(a) => rfc_slice(a.len() as i128, *s, *e, *st).into_iter()
                        .map(|k| N { v: &a[k as usize], path: idx_path(&n.path, k as usize), kpath: idx_path(&n.kpath, k as usize) }).collect(),
                    None => vec![],
                },
                Selector::Filter(f) => children(n).into_iter().filter(|c| self.filter(f, c.v)).collect(),
            }
        }
        pub fn segment(&self, seg: &Segment, input: &[N<'a, T>]) -> Vec<N<'a, T>> {
            match seg {
                Segment::Selector(s) => input.iter().flat_map(|n| self.select(s, n)).collect(),
                Segment::Selectors(ss) => { if input.len() > 1 { self.union_multi.set(true); }
                    if self.by_selector { ss.iter().flat_map(|s| input.iter().flat_map(|n| self.select(s, n)).collect::<Vec<_>>()).collect() }
                    else { input.iter().flat_map(|n| ss.iter().flat_map(|s| self.select(s, n)).collect::<Vec<_>>()).collect() } }
                Segment::Descendant(b) => {
                    let mut d = vec![];
                    for n in input { descendants(n, &mut d); }
                    self.segment(b, &d)
                }
            }
        }
        pub fn segments(&self, segs: &[Segment], start: Vec<N<'a, T>>) -> Vec<N<'a, T>> {
            let mut cur = start;
            for s in segs { cur = self.segment(s, &cur); }
            cur
        }
        pub fn query(&self, q: &JpQuery) -> Vec<N<'a, T>> {
            self.segments(&q.segments, vec![N { v: self.root, path: "$".to_string(), kpath: "$".to_string() }])
        }

        // ---- filters (RFC 9535 2.3.5) ----
        pub fn filter(&self, f: &Filter, cur: &'a T) -> bool {
            match f {
                Filter::Or(fs) => fs.iter().any(|x| self.filter(x, cur)),
                Filter::And(fs) => fs.iter().all(|x| self.filter(x, cur)),
                Filter::Atom(a) => self.atom(a, cur),
            }
        }
        fn atom(&self, a: &FilterAtom, cur: &'a T) -> bool {
            match a {
                FilterAtom::Filter { expr, not } => *not != self.filter(expr, cur),
                FilterAtom::Test { expr, not } => *not != self.test(expr, cur),
                FilterAtom::Comparison(c) => self.comparison(c, cur),
            }
        }
        pub fn test_nodes(&self, t: &Test, cur: &'a T) -> Vec<N<'a, T>> {
            match t {
                Test::RelQuery(segs) => self.segments(segs, vec![N { v: cur, path: String::new(), kpath: String::new() }]),
                Test::AbsQuery(q) => self.query(q),
                Test::Function(_) => vec![],
            }
        }
        fn test(&self, t: &Test, cur: &'a T) -> bool {
            match t {
                Test::Function(tf) => self.fn_logical(tf, cur),
                _ => !self.test_nodes(t, cur).is_empty(),
            }
        }
        fn comparison(&self, c: &Comparison, cur: &'a T) -> bool {
            let (l, r) = match c {
                Comparison::Eq(l, r) | Comparison::Ne(l, r) | Comparison::Gt(l, r) | Comparison::Gte(l, r) | Comparison::Lt(l, r) | Comparison::Lte(l, r) => (l, r),
            };
            let (lv, rv) = (self.comparable(l, cur), self.comparable(r, cur));
            let eq = match (&lv, &rv) { (None, None) => true, (Some(x), Some(y)) => json_eq(x.get(), y.get()), _ => false };
            let lt = |a: &Option<V<'a, T>>, b: &Option<V<'a, T>>| match (a, b) { (Some(x), Some(y)) => json_lt(x.get(), y.get()), _ => false };
            match c {
                Comparison::Eq(..) => eq,
                Comparison::Ne(..) => !eq,
                Comparison::Lt(..) => lt(&lv, &rv),
                Comparison::Lte(..) => lt(&lv, &rv) || eq,
                Comparison::Gt(..) => lt(&rv, &lv),
                Comparison::Gte(..) => lt(&rv, &lv) || eq,
            }
        }
        pub fn literal(&self, l: &Literal) -> T {
            match l {
                Literal::Int(v) => (*v).into(), Literal::Float(v) => (*v).into(), Literal::String(s) => s.as_str().into(),
                Literal::Bool(b) => (*b).into(), Literal::Null => T::null(),
            }
        }
        fn comparable(&self, c: &Comparable, cur: &'a T) -> Option<V<'a, T>> {
            match c {
                Comparable::Literal(l) => Some(V::Own(self.literal(l))),
                Comparable::SingularQuery(q) => {
                    let (segs, start) = match q {
                        SingularQuery::Current(s) => (s, N { v: cur, path: String::new(), kpath: String::new() }),
                        SingularQuery::Root(s) => (s, N { v: self.root, path: "$".to_string(), kpath: "$".to_string() }),
                    };
                    let mut ns = vec![start];
                    for s in segs {
                        let sel = match s { SingularQuerySegment::Index(i) => Selector::Index(*i), SingularQuerySegment::Name(k) => Selector::Name(k.clone()) };
                        ns = ns.iter().flat_map(|n| self.select(&sel, n)).collect();
                    }
                    if ns.len() == 1 { Some(V::Node(ns[0].v)) } else { None }
                }
                Comparable::Function(tf) => self.fn_value(tf, cur),
            }
        }

        // ---- function extensions (RFC 9535 2.4) ----
        /// ValueType conversion of an argument: literal, singular nodelist, value-typed function
        fn arg_value(&self, a: &FnArg, cur: &'a T) -> Option<V<'a, T>> {
            match a {
                FnArg::Literal(l) => Some(V::Own(self.literal(l))),
                FnArg::Filter(f) => Some(V::Own(self.filter(f, cur).into())),
                FnArg::Test(t) => match &**t {
                    Test::Function(tf) => if logical(tf) { Some(V::Own(self.fn_logical(tf, cur).into())) } else { self.fn_value(tf, cur) },
                    _ => { let ns = self.test_nodes(t, cur); if ns.len() == 1 { Some(V::Node(ns[0].v)) } else { None } }
                },
            }
        }
        fn arg_count(&self, a: &FnArg, cur: &'a T) -> i64 {
            match a {
                FnArg::Test(t) => match &**t {
                    Test::Function(tf) if !logical(tf) => if self.fn_value(tf, cur).is_some() { 1 } else { 0 },
                    Test::Function(_) => 1,
                    _ => self.test_nodes(t, cur).len() as i64,
                },
                _ => 1,
            }
        }
        pub fn fn_value(&self, tf: &TestFunction, cur: &'a T) -> Option<V<'a, T>> {
            match tf {
                TestFunction::Length(a) => {
                    let v = self.arg_value(a, cur)?;
                    let v = v.get();
                    if let Some(s) = v.as_str() { Some(V::Own((s.chars().count() as i64).into())) }
                    else if let Some(x) = v.as_array() { Some(V::Own((x.len() as i64).into())) }
                    else if let Some(x) = v.as_object() { Some(V::Own((x.len() as i64).into())) }
                    else { None }
                }
                TestFunction::Count(a) => Some(V::Own(self.arg_count(a, cur).into())),
                TestFunction::Value(a) => self.arg_value(a, cur),
                _ => None,
            }
        }
        pub fn fn_logical(&self, tf: &TestFunction, cur: &'a T) -> bool {
            let s_of = |a: &FnArg| self.arg_value(a, cur).and_then(|v| v.get().as_str().map(|s| s.to_string()));
            match tf {
                TestFunction::Match(a, b) => match (s_of(a), s_of(b)) { (Some(s), Some(p)) => regex_full(&s, &p), _ => false },
                TestFunction::Search(a, b) => match (s_of(a), s_of(b)) { (Some(s), Some(p)) => regex_find(&s, &p), _ => false },
                // C14 (the documented extension functions of serde_json::Value; meaningful for that data type only): the VALUES of the
                // arguments are handed over in written order, an argument that denotes nothing contributes none
                TestFunction::Custom(name, args) => {
                    // an argument written as a non-singular query that selects SEVERAL nodes is outside the property (it speaks of values and
                    // missing nodes): such an evaluation is flagged and not compared
                    for a in args { if let FnArg::Test(t) = a { if !matches!(&**t, Test::Function(_)) && self.test_nodes(t, cur).len() > 1 { self.ext_multi.set(true); } } }
                    let vals: Vec<V<'a, T>> = args.iter().filter_map(|a| self.arg_value(a, cur)).collect();
                    let refs: Vec<&T> = vals.iter().map(|v| v.get()).collect();
                    ext_sets(name, &refs) == Some(true)
                }
                _ => false,
            }
        }
    }
    /// C14, from the property statement: with an array as second argument `in(x, L)` is true exactly when some element of L equals x and
    /// `nin` is its negation; for two arrays `any_of` iff they share an element, `none_of` iff they share none, `subset_of` iff every element
    /// of A occurs in B.  A missing argument (any argument count other than two) or a non-array where an array is required: no result
    /// (None; the test is false).  "Equals" is the data type's own equality (PartialEq), as in the Verus spec (abstract kernel value_eq).
    pub fn ext_sets<T: Queryable>(name: &str, a: &[&T]) -> Option<bool> {
        if a.len() != 2 { return None; }
        match name {
            "in" => a[1].as_array().map(|l| l.iter().any(|e| e == a[0])),
            "nin" => a[1].as_array().map(|l| !l.iter().any(|e| e == a[0])),
            "any_of" => match (a[0].as_array(), a[1].as_array()) { (Some(x), Some(l)) => Some(x.iter().any(|e| l.iter().any(|f| e == f))), _ => None },
            "none_of" => match (a[0].as_array(), a[1].as_array()) { (Some(x), Some(l)) => Some(!x.iter().any(|e| l.iter().any(|f| e == f))), _ => None },
            "subset_of" => match (a[0].as_array(), a[1].as_array()) { (Some(x), Some(l)) => Some(x.iter().all(|e| l.iter().any(|f| e == f))), _ => None },
            _ => None,
        }
    }
    pub fn logical(tf: &TestFunction) -> bool {
        matches!(tf, TestFunction::Custom(..) | TestFunction::Search(..) | TestFunction::Match(..))
    }
    /// match: the ENTIRE string matches the pattern; search: some substring does; invalid pattern -> false.
    /// The regex engine is trusted; only the anchoring is specified here.
    pub fn regex_full(s: &str, p: &str) -> bool {
        regex::Regex::new(&format!("^(?:{})$", p)).map(|r| r.is_match(s)).unwrap_or(false)
    }
    /// the member lookup the implementation is KNOWN to perform for a name-selector text (open findings on escapes and quotes): `\\\\` and `\\/`
    /// are decoded, every other escape is kept as written, then every enclosing quote character of the same kind is trimmed (trim_matches)
    pub fn known_lookup_key(text: &str) -> String {
        let cs: Vec<char> = text.chars().collect();
        let mut n = String::new();
        let mut i = 0;
        while i < cs.len() {
            if cs[i] == '\\' && i + 1 < cs.len() && (cs[i + 1] == '\\' || cs[i + 1] == '/') { n.push(cs[i + 1]); i += 2; }
            else { n.push(cs[i]); i += 1; }
        }
        if n.starts_with('\'') && n.ends_with('\'') { n.trim_matches('\'').to_string() }
        else if n.starts_with('"') && n.ends_with('"') { n.trim_matches('"').to_string() }
        else { n }
    }
    /// the pattern the implementation is KNOWN to hand to the regex engine (open finding: prepare_regex collapses `\\\\` to `\\` whatever the
    /// origin of the pattern, to make up for the escapes the parser does not decode)
    pub fn known_pattern(p: &str) -> String { if p.contains("\\\\") { p.replace("\\\\", "\\") } else { p.to_string() } }
    pub fn regex_find(s: &str, p: &str) -> bool {
        regex::Regex::new(p).map(|r| r.is_match(s)).unwrap_or(false)
    }
}
