// ===== sanity check of the ASSUMED std-shape contracts of contracts/helpers.rs (trusted base; bounded, never counted as proved) =====
// The bodies `std_shapes::vf_*` are generated at build time from contracts/helpers.rs (the std expression that is each helper's
// body, verbatim); this module evaluates the executable reading of each assumed contract on every input inside the bound:
// vectors of length 0..=4 over {0,1,2} and a small family of closures, with call-order recording for the relational ones.
pub mod helpers_check {
    use super::std_shapes::*;
    use super::checks::Report;
    use serde_json::json;
    use std::cell::RefCell;

    fn vecs(maxlen: usize) -> Vec<Vec<i64>> {
        let mut out: Vec<Vec<i64>> = vec![vec![]];
        let mut cur: Vec<Vec<i64>> = vec![vec![]];
        for _ in 0..maxlen {
            let mut nxt = vec![];
            for v in &cur { for x in 0..3 { let mut w = v.clone(); w.push(x); nxt.push(w); } }
            out.extend(nxt.iter().cloned());
            cur = nxt;
        }
        out
    }
    pub fn group_helpers(_tier: &str, _seed: u64, _only: Option<(usize, usize)>) -> Report {
        let mut rep = Report::new("helpers");
        let vs = vecs(4);
        macro_rules! check { ($name:expr, $ok:expr, $w:expr) => {{ rep.evaluations += 1; rep.nontrivial += 1; if !$ok { rep.fail(concat!("helpers.", $name), &[], $w); } }}; }
        for (xi, x) in vs.iter().enumerate() {
            // R1 chain: r == x ++ y
            for y in vs.iter().take(40) {
                let r = vf_chain_collect(x.clone(), y.clone());
                let mut w = x.clone(); w.extend(y.iter().cloned());
                check!("vf_chain_collect", r == w, json!({"x": x, "y": y, "observed": r}));
                // Rz zip-all: r <=> forall i < min(len). p(x[i], y[i])
                for k in 0..3i64 {
                    let r = vf_zip_all(x, y, |(a, b): (&i64, &i64)| (*a + *b) % 3 != k);
                    let n = std::cmp::min(x.len(), y.len());
                    let want = (0..n).all(|i| (x[i] + y[i]) % 3 != k);
                    check!("vf_zip_all", r == want, json!({"x": x, "y": y, "k": k, "observed": r}));
                }
            }
            // R2 enumerate-map, R2v / R2i map: same length, i-th output is F of the i-th element (and its index); F called in order, once each
            let log: RefCell<Vec<usize>> = RefCell::new(vec![]);
            let r = vf_enumerate_map_collect(x, |(i, a): (usize, &i64)| { log.borrow_mut().push(i); (i as i64) * 10 + *a });
            check!("vf_enumerate_map_collect", r.len() == x.len() && (0..x.len()).all(|i| r[i] == (i as i64) * 10 + x[i]) && *log.borrow() == (0..x.len()).collect::<Vec<_>>(), json!({"x": x, "observed": r}));
            let r = vf_into_map_collect(x.clone(), |a: i64| a * 7 + 1);
            check!("vf_into_map_collect", r.len() == x.len() && (0..x.len()).all(|i| r[i] == x[i] * 7 + 1), json!({"x": x, "observed": r}));
            let r: Vec<i64> = vf_iter_map_collect(x, |a: &i64| *a * 5 + 2);
            check!("vf_iter_map_collect", r.len() == x.len() && (0..x.len()).all(|i| r[i] == x[i] * 5 + 2), json!({"x": x, "observed": r}));
            // R3 flat-map: concatenation of the per-element outputs in input order
            let r = vf_flat_map_collect_raw(x.clone(), |a: i64| (0..a).map(|j| a * 10 + j).collect::<Vec<i64>>());
            let want: Vec<i64> = { let mut w = vec![]; for a in x { for j in 0..*a { w.push(a * 10 + j); } } w };
            check!("vf_flat_map_collect", r == want, json!({"x": x, "observed": r}));
            // R7 map / flat_map over references: F on a reference to every element in order, G on each of F's results in order, outputs concatenated
            let (lf, lg): (RefCell<Vec<i64>>, RefCell<Vec<i64>>) = (RefCell::new(vec![]), RefCell::new(vec![]));
            let r = vf_ref_map_flat_map_collect_raw(x, |a: &i64| { lf.borrow_mut().push(*a); *a + 1 }, |b: i64| { lg.borrow_mut().push(b); (0..b).map(|j| b * 10 + j).collect::<Vec<i64>>() });
            let want: Vec<i64> = { let mut w = vec![]; for a in x { let b = *a + 1; for j in 0..b { w.push(b * 10 + j); } } w };
            check!("vf_ref_map_flat_map_collect", r == want && *lf.borrow() == *x && *lg.borrow() == x.iter().map(|a| a + 1).collect::<Vec<_>>(), json!({"x": x, "observed": r}));
            // rule E11: what the slice patterns `[a]` and `[a, b]` match and bind (the reading the proved helpers vf_slice_view / vf_slice2 are stated against)
            let view: (usize, Option<&i64>, Option<&i64>) = match x.as_slice() { [] => (0, None, None), [a] => (1, Some(a), None), [a, b] => (2, Some(a), Some(b)), _ => (3, None, None) };
            let want = match x.len() { 0 => (0, None, None), 1 => (1, Some(&x[0]), None), 2 => (2, Some(&x[0]), Some(&x[1])), _ => (3, None, None) };
            check!("slice_patterns", view == want && view.1.map(|p| std::ptr::eq(p, &x[0])).unwrap_or(true) && view.2.map(|p| std::ptr::eq(p, &x[1])).unwrap_or(true), json!({"x": x}));
            // Cow: as_ref / deref give the borrowed or the owned value (assume_specification in contracts/helpers.rs)
            { use std::borrow::Cow;
              let (b, o): (Cow<Vec<i64>>, Cow<Vec<i64>>) = (Cow::Borrowed(x), Cow::Owned(x.clone()));
              check!("cow_accessors", std::ptr::eq(b.as_ref(), x) && o.as_ref() == x && b.len() == x.len() && o.len() == x.len() && *b == *x && *o == *x, json!({"x": x})); }
            // R5 any / all
            for k in 0..3i64 {
                check!("vf_iter_any", vf_iter_any(x, |a: &i64| *a == k) == (0..x.len()).any(|i| x[i] == k), json!({"x": x, "k": k}));
                check!("vf_iter_all", vf_iter_all(x, |a: &i64| *a != k) == (0..x.len()).all(|i| x[i] != k), json!({"x": x, "k": k}));
                // R4 / R4v: order-preserving sub-sequence of the kept elements, mapped; P once per element in order, F on the kept ones in order
                let (lp, lf): (RefCell<Vec<usize>>, RefCell<Vec<usize>>) = (RefCell::new(vec![]), RefCell::new(vec![]));
                let r = vf_enumerate_filter_map_collect_raw(x, |p: &(usize, &i64)| { lp.borrow_mut().push(p.0); *p.1 != k }, |(i, a): (usize, &i64)| { lf.borrow_mut().push(i); (i as i64) * 10 + *a });
                let kept: Vec<usize> = (0..x.len()).filter(|&i| x[i] != k).collect();
                let want: Vec<i64> = kept.iter().map(|&i| (i as i64) * 10 + x[i]).collect();
                check!("vf_enumerate_filter_map_collect", r == want && *lp.borrow() == (0..x.len()).collect::<Vec<_>>() && *lf.borrow() == kept, json!({"x": x, "k": k, "observed": r}));
                let r = vf_filter_map_collect_raw(x.clone(), |a: &i64| *a != k, |a: i64| a * 3 + 1);
                let want: Vec<i64> = x.iter().filter(|a| **a != k).map(|a| a * 3 + 1).collect::<Vec<_>>();
                check!("vf_filter_map_collect", r == want, json!({"x": x, "k": k, "observed": r}));
            }
            // R6 fold: left fold from init; R6r map-reduce-or: D for no element, else left fold of G over the mapped elements
            let r = vf_iter_fold(x, 100i64, |acc: i64, a: &i64| acc * 4 + *a);
            let mut want = 100i64; for a in x { want = want * 4 + *a; }
            check!("vf_iter_fold", r == want, json!({"x": x, "observed": r}));
            let r = vf_map_reduce_or(x, |a: &i64| vec![*a], |mut l: Vec<i64>, r: Vec<i64>| { l.extend(r); l.push(-1); l }, vec![99]);
            let want = if x.is_empty() { vec![99] } else { let mut acc = vec![x[0]]; for a in &x[1..] { acc.push(*a); acc.push(-1); } acc };
            check!("vf_map_reduce_or", r == want, json!({"x": x, "observed": r}));
            let _ = xi;
        }
        // strings: number of Unicode scalar values; `<` on str is the order by Unicode scalar value (UTF-8 preserves it)
        let strs = ["", "a", "b", "ab", "B", "é", "e\u{301}", "z", "~", "\u{7f}", "\u{80}", "\u{7ff}", "\u{800}", "\u{ffff}", "\u{10000}", "𝄞", "\u{10ffff}", "aé", "a𝄞", "a\u{ffff}", "ab\u{0}", "\u{0}"];
        for a in strs {
            check!("vf_chars_count", vf_chars_count(a) == a.chars().collect::<Vec<char>>().len(), json!({"s": a}));
            for b in strs {
                let (ca, cb): (Vec<u32>, Vec<u32>) = (a.chars().map(|c| c as u32).collect(), b.chars().map(|c| c as u32).collect());
                check!("vf_str_lt", vf_str_lt(a, b) == (ca < cb), json!({"a": a, "b": b}));
            }
        }
        // Option::map_or, min / max / abs (assume_specification in contracts/spec_arith.rs)
        for a in [i64::MIN + 1, -2, -1, 0, 1, 2, i64::MAX] {
            check!("i64_abs", a.abs() as i128 == (if a >= 0 { a as i128 } else { -(a as i128) }), json!({"a": a}));
            for b in [i64::MIN, -1, 0, 1, i64::MAX] {
                check!("std_min_max", std::cmp::min(a, b) == (if a <= b { a } else { b }) && std::cmp::max(a, b) == (if a >= b { a } else { b }), json!({"a": a, "b": b}));
            }
            check!("option_map_or", Some(a).map_or(-7, |v| v / 2) == a / 2 && None::<i64>.map_or(-7, |v| v / 2) == -7, json!({"a": a}));
        }
        // the facts a faithful Queryable implementor satisfies (proof fns without body in contracts/queryable_trait.rs), on both implementations
        fn facts<T: crate::query::queryable::Queryable>(rep: &mut Report, tag: &str, v: &T, depth: usize) {
            rep.evaluations += 1; rep.nontrivial += 1;
            for k in ["a", "b", "'a'", "\"a\"", "0", "", "zz"] {
                if v.get(k).is_some() && v.as_object().is_none() { rep.fail("helpers.queryable.get_only_on_objects", &[], json!({"impl": tag, "key": k})); }
            }
            if v.as_array().is_some() && v.as_object().is_some() { rep.fail("helpers.queryable.array_xor_object", &[], json!({"impl": tag})); }
            if depth > 0 {
                if let Some(a) = v.as_array() { for e in a { facts(rep, tag, e, depth - 1); } }
                if let Some(o) = v.as_object() { for (_, e) in o { facts(rep, tag, e, depth - 1); } }
            }
        }
        fn conv<T: crate::query::queryable::Queryable>(rep: &mut Report, tag: &str) {
            rep.evaluations += 1; rep.nontrivial += 1;
            for b in [true, false] { if T::from(b).as_bool() != Some(b) { rep.fail("helpers.queryable.from_bool_roundtrip", &[], json!({"impl": tag, "b": b})); } }
        }
        conv::<serde_json::Value>(&mut rep, "serde_json::Value");
        conv::<super::kjson::J>(&mut rep, "kjson::J");
        for d in super::gen::docs(8, 1) {
            facts(&mut rep, "serde_json::Value", &d, 4);
            facts(&mut rep, "kjson::J", &super::kjson::from_value(&d), 4);
        }
        rep.samples.push(json!({"helpers": ["vf_chain_collect", "vf_zip_all", "vf_enumerate_map_collect", "vf_into_map_collect", "vf_iter_map_collect", "vf_flat_map_collect_raw", "vf_iter_any", "vf_iter_all",
                                            "vf_enumerate_filter_map_collect_raw", "vf_filter_map_collect_raw", "vf_iter_fold", "vf_map_reduce_or", "vf_chars_count", "vf_str_lt", "vf_ref_map_flat_map_collect_raw", "slice patterns [a] / [a, b]", "Cow::as_ref / deref"],
                                "bound": "vectors of length 0..=4 over {0,1,2}; 22 strings incl. every UTF-8 length boundary"}));
        rep
    }
}
