// ===== entry point of the bounded back end: verif_native <group> <tier> <seed> [qi di] =====
pub fn main() {
    let a: Vec<String> = std::env::args().collect();
    let group = a.get(1).map(|s| s.as_str()).unwrap_or("");
    let tier = a.get(2).map(|s| s.as_str()).unwrap_or("quick");
    let seed: u64 = a.get(3).and_then(|s| s.parse().ok()).unwrap_or(0);
    let only = match (a.get(4).and_then(|s| s.parse().ok()), a.get(5).and_then(|s| s.parse().ok())) { (Some(x), Some(y)) => Some((x, y)), _ => None };
    std::panic::set_hook(Box::new(|_| {}));
    if group == "deep" {
        // verif_native deep <tier> <seed> <probe> <depth>: ONE deep-nesting probe of the public API, in its own process (a stack
        // overflow aborts the process, catch_unwind cannot see it), on a thread with an 8 MiB stack (the Linux main-thread default)
        let (probe, depth) = only.unwrap_or((0, 1));
        let h = std::thread::Builder::new().stack_size(8 << 20).spawn(move || checks::deep_probe(probe, depth)).unwrap();
        match h.join() {
            Ok(v) => println!("{}", v),
            Err(_) => println!("{}", serde_json::json!({"probe": probe, "depth": depth, "outcome": "panic"})),
        }
        return;
    }
    if group == "kani_replay" {
        // verif_native kani_replay <harness> <hex;hex;...>: run the Kani harness natively on the concrete values Kani found
        let harness = a.get(2).cloned().unwrap_or_default();
        let vals: Vec<Vec<u8>> = a.get(3).map(|s| s.split(';').filter(|x| !x.is_empty()).map(|h| (0..h.len() / 2).map(|i| u8::from_str_radix(&h[2 * i..2 * i + 2], 16).unwrap()).collect()).collect()).unwrap_or_default();
        crate::query::verif_k::kani::set_inputs(vals);
        #[cfg(feature = "vx_cmp")] fn rp_cmp(h: &str) -> bool { crate::query::comparison::verif_kani_cmp::replay(h) }
        #[cfg(not(feature = "vx_cmp"))] fn rp_cmp(_h: &str) -> bool { false }
        #[cfg(feature = "vx_sel")] fn rp_idx(h: &str) -> bool { crate::query::selector::verif_kani_idx::replay(h) }
        #[cfg(not(feature = "vx_sel"))] fn rp_idx(_h: &str) -> bool { false }
        let r = std::panic::catch_unwind(|| rp_cmp(&harness) || rp_idx(&harness));
        let (reproduced, note) = match &r {
            Ok(true) => (false, "harness ran to completion: every assertion held on these values".to_string()),
            Ok(false) => (false, "unknown harness".to_string()),
            Err(e) => match e.downcast_ref::<&str>() { Some(s) if s.starts_with("replay") => (false, s.to_string()),
                                                       Some(s) => (true, s.to_string()),
                                                       None => { let m = e.downcast_ref::<String>().cloned().unwrap_or_else(|| "panic".to_string());
                                                                 (!m.starts_with("replay") && !m.contains("out of range for slice"), m) } },
        };
        println!("{}", serde_json::json!({"harness": harness, "reproduced": reproduced, "note": note}));
        return;
    }
    let groups: Vec<&str> = if group == "all" { vec!["arith", "pointer_text", "name_lookup", "descendant", "selectors", "regex", "cmp_struct", "requery", "e2e"] } else { group.split(',').collect() };
    // termination watchdog: an evaluation of the real code that runs longer than 300 s (wall clock; generous, so that a
    // heavily loaded machine cannot fake one) is reported as a hang
    std::thread::spawn(|| loop {
        std::thread::sleep(std::time::Duration::from_millis(500));
        let cur = checks::CUR.lock().unwrap().clone();
        if let Some((g, what, t0)) = cur {
            if t0.elapsed().as_secs() >= 300 {
                println!("{}", serde_json::json!({"hang": {"group": g, "evaluation": what, "seconds": t0.elapsed().as_secs()}}));
                std::process::exit(3);
            }
        }
    });
    let mut out = vec![];
    for g in groups {
        let r = match g {
            "e2e" | "e2e_filter" | "e2e_fn" | "e2e_cmp" | "e2e_ext" => checks::group_e2e_named(g, tier, seed, only),
            "requery" => checks::group_requery(tier, seed, only),
            "purity" => checks::group_purity(tier, seed, only),
            "helpers" => helpers_check::group_helpers(tier, seed, only),
            "purity_x" => checks::group_purity_x(tier, seed, only),
            "text_arith" | "text_filter" | "text_plain" | "text_union" | "text_cmp" | "text_e2e" | "text_ext" => checks::group_text(g, tier, seed, only),
            "descendant" => checks::group_descendant(tier, seed, only),
            "selectors" => checks::group_selectors(tier, seed, only),
            "pointer_text" => checks::group_pointer_text(tier, seed, only),
            "name_lookup" => checks::group_name_lookup(tier, seed, only),
            "regex" => checks::group_regex(tier, seed, only),
            "custom" => checks::group_custom(tier, seed, only),
            "ext_direct" => checks::group_ext_direct(tier, seed, only),
            "cmp_struct" => checks::group_cmp_struct(tier, seed, only),
            "arith" => checks::group_arith(tier, seed, only),
            _ => { eprintln!("unknown group {}", g); std::process::exit(2); }
        };
        checks::unwatch();
        out.push(r.to_json());
    }
    println!("{}", serde_json::Value::Array(out));
}
