// ===== entry point of the bounded back end: verif_native <group> <tier> <seed> [qi di] =====
pub fn main() {
    let a: Vec<String> = std::env::args().collect();
    let group = a.get(1).map(|s| s.as_str()).unwrap_or("");
    let tier = a.get(2).map(|s| s.as_str()).unwrap_or("quick");
    let seed: u64 = a.get(3).and_then(|s| s.parse().ok()).unwrap_or(0);
    let only = match (a.get(4).and_then(|s| s.parse().ok()), a.get(5).and_then(|s| s.parse().ok())) { (Some(x), Some(y)) => Some((x, y)), _ => None };
    std::panic::set_hook(Box::new(|_| {}));
    let groups: Vec<&str> = if group == "all" { vec!["arith", "pointer_text", "name_lookup", "descendant", "selectors", "regex", "cmp_struct", "requery", "e2e"] } else { group.split(',').collect() };
    let mut out = vec![];
    for g in groups {
        let r = match g {
            "e2e" | "e2e_filter" | "e2e_fn" => checks::group_e2e_named(g, tier, seed, only),
            "requery" => checks::group_requery(tier, seed, only),
            "descendant" => checks::group_descendant(tier, seed, only),
            "selectors" => checks::group_selectors(tier, seed, only),
            "pointer_text" => checks::group_pointer_text(tier, seed, only),
            "name_lookup" => checks::group_name_lookup(tier, seed, only),
            "regex" => checks::group_regex(tier, seed, only),
            "cmp_struct" => checks::group_cmp_struct(tier, seed, only),
            "arith" => checks::group_arith(tier, seed, only),
            _ => { eprintln!("unknown group {}", g); std::process::exit(2); }
        };
        out.push(r.to_json());
    }
    println!("{}", serde_json::Value::Array(out));
}
