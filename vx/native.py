"""Bounded contract evaluation on the real crate (native back end) — DESIGN.md §3.3.

The oracle (native/mirror.rs), the enumerators and the per-unit contract checks are appended, under
cfg(besok_jsonpath_rust_verif), to a scratch copy of /repo's working tree and driven by a tiny runner
crate.  Results are bounded evidence: they are never counted as discharged proof obligations.
"""
from __future__ import annotations
import json, os, re, subprocess, time
from .world import VERIF

EXPORTS = [("native/exports/segment.rs", "src/query/segment.rs"), ("native/exports/selector.rs", "src/query/selector.rs"),
           ("native/exports/comparison.rs", "src/query/comparison.rs"), ("native/exports/test_function.rs", "src/query/test_function.rs")]
MODULES = ["mirror.rs", "kjson.rs", "gen.rs", "print.rs", "checks.rs", "helpers_check.rs", "main.rs"]

# property -> [(group, [obligation prefixes that belong to the property])]
GROUPS = {
    "C01": [("e2e", ["e2e.members", "e2e.multiplicity", "e2e.second_impl.members", "e2e.second_impl.multiplicity"]), ("text_filter", ["text_filter.api_agree"]), ("text_arith", ["text_arith.members", "text_arith.api_agree"]), ("text_plain", ["text_plain.members", "text_plain.api_agree"]), ("text_union", ["text_union.members", "text_union.api_agree"]), ("name_lookup", ["process_key.member", "process_key.wrong_member"]), ("descendant", ["process_descendant.preorder"]),
            ("selectors", ["process_selectors.members"])],
    "C02": [("e2e", ["e2e.order", "e2e.multiplicity", "e2e.second_impl.order", "e2e.second_impl.multiplicity"]), ("text_union", ["text_union.members", "text_union.order", "text_union.api_agree"]), ("descendant", ["process_descendant.preorder"]), ("selectors", ["process_selectors.order", "process_selectors.members"])],
    "C03": [("e2e", ["e2e.path"]), ("pointer_text", ["Pointer::key.text", "Pointer::idx.text"]), ("name_lookup", ["process_key.path", "process_key.wrong_member"]),
            ("descendant", ["process_descendant.path"]), ("requery", ["path.requery", "path.injective"]),
            ("text_union", ["text_union.api_agree"]), ("text_plain", ["text_plain.api_agree"])],
    "C04": [("cmp_struct", ["eq.structural", "lt.order"]), ("e2e_cmp", ["e2e_cmp.members", "e2e_cmp.multiplicity"]), ("text_cmp", ["text_cmp.members", "text_cmp.order", "text_cmp.accepts"])],
    "C05": [("e2e_filter", ["e2e_filter.members", "e2e_filter.multiplicity", "e2e_filter.order"]), ("text_filter", ["text_filter.members", "text_filter.order", "text_filter.accepts"])],
    "C08": [("e2e", ["e2e.no_panic", "e2e.ok"]), ("arith", ["process_index.no_panic", "process_slice.no_panic"]), ("regex", ["regex.no_panic"]),
            ("descendant", ["process_descendant.no_panic"]), ("name_lookup", ["process_key.no_panic"]), ("text_arith", ["text_arith.no_panic", "text_arith.accepts"]), ("text_filter", ["text_filter.no_panic", "text_filter.accepts"]), ("text_plain", ["text_plain.no_panic", "text_plain.accepts"]), ("text_union", ["text_union.no_panic", "text_union.accepts"]),
            ("custom", ["custom.no_panic", "custom.ok"])],
    "C10": [("regex", ["regex.match", "regex.search", "regex.no_panic"]), ("e2e_fn", ["e2e_fn.members", "e2e_fn.multiplicity", "e2e_fn.no_panic"])],
    "C11": [("arith", ["process_index.select", "process_slice.select", "process_index.no_panic", "process_slice.no_panic"]),
            ("text_arith", ["text_arith.members", "text_arith.order", "text_arith.no_panic", "text_arith.accepts"])],
    "C12": [("purity", ["purity.repeat", "purity.history", "purity.parsed_once", "purity.threads", "purity.entry_points_agree"]),
            ("text_plain", ["text_plain.api_agree"]), ("text_union", ["text_union.api_agree"]), ("text_filter", ["text_filter.api_agree"]), ("text_arith", ["text_arith.api_agree"])],
    "C14": [("ext_direct", ["extension_custom.def", "extension_custom.laws", "extension_custom.no_panic"]),
            ("e2e_ext", ["e2e_ext.members", "e2e_ext.multiplicity", "e2e_ext.order", "e2e_ext.no_panic", "e2e_ext.ok"]),
            ("text_ext", ["text_ext.members", "text_ext.order", "text_ext.no_panic", "text_ext.accepts", "text_ext.api_agree"])],
    "C15": [("e2e", ["e2e.view_independent", "e2e.second_impl.members", "e2e.second_impl.multiplicity", "e2e.second_impl.order"]), ("text_filter", ["text_filter.api_agree", "text_filter.api_view_independent"]),
            ("text_plain", ["text_plain.api_agree", "text_plain.api_view_independent"]), ("text_arith", ["text_arith.api_view_independent"]), ("text_union", ["text_union.api_view_independent"]),
            ("cmp_struct", ["eq.structural", "lt.order"]), ("text_cmp", ["text_cmp.api_view_independent"])],
}
# groups that only the thorough tier runs (through-the-parser rendering of the whole end-to-end menu: 2 min single-threaded)
THOROUGH_GROUPS = {
    "C01": [("text_e2e", ["text_e2e.members", "text_e2e.api_agree"])],
    "C02": [("text_e2e", ["text_e2e.order", "text_e2e.members"])],
    "C05": [("text_e2e", ["text_e2e.members"])],
    "C12": [("text_e2e", ["text_e2e.api_agree"])],
    "C15": [("text_e2e", ["text_e2e.api_view_independent"])],
}
# Verus unit -> bounded groups that can produce a failing input for it
CEX_GROUPS = {
    "process_index": ["arith"], "process_slice": ["arith"], "validate_range": ["text_arith"],
    "eq": ["cmp_struct", "e2e_cmp"], "lt": ["cmp_struct", "e2e_cmp"], "count": ["e2e_fn"], "value": ["e2e_fn"], "length": ["e2e_fn"], "TestFunction::apply": ["e2e_fn"],
    "Filter::select_children": ["e2e_filter"], "Filter::process_elem": ["e2e_filter"], "FilterAtom::process": ["e2e_filter"], "Filter::filter_item": ["e2e_filter"],
    "Filter::process": ["e2e_filter"], "Filter::process_selector": ["e2e_filter"], "invert_bool": ["e2e_filter"], "Test::process": ["e2e_filter"],
    "process_key": ["name_lookup", "e2e"], "process_descendant": ["descendant", "e2e"], "process_selectors": ["selectors", "e2e"], "process_wildcard": ["e2e"],
    "eq_json": ["cmp_struct", "e2e_cmp"], "eq_arrays": ["cmp_struct", "e2e_cmp"], "eq_ref_to_array": ["cmp_struct", "e2e_cmp"], "Comparison::process": ["e2e_cmp"], "Comparable::process": ["e2e_cmp"],
    "Literal::process": ["e2e_cmp"], "SingularQuery::process": ["e2e_cmp"], "SingularQuerySegment::process": ["e2e_cmp"], "Vec<SingularQuerySegment>::process": ["e2e_cmp"],
    "FnArg::process": ["e2e_fn"], "TestFunction::process": ["e2e_fn"], "Value::extension_custom": ["ext_direct"], "custom": ["e2e_ext"], "regex": ["regex", "e2e_fn"], "TestFunction::try_new": ["text_ext", "text_filter"],
    "js_path": ["text_plain", "text_union"], "js_path_vals": ["text_plain", "text_union"], "js_path_path": ["text_plain", "text_union"], "js_path_process": ["e2e"],
    "JsonPath::query": ["text_plain", "text_union"], "JsonPath::query_only_path": ["text_plain", "text_union"], "JsonPath::query_with_path": ["text_plain", "text_union"],
    "Data::flat_map": ["e2e"], "Data::reduce": ["e2e"], "State::flat_map": ["e2e"], "State::reduce": ["e2e"], "Segment::process": ["e2e"], "Selector::process": ["e2e"],
    "Vec<Segment>::process": ["e2e"], "JpQuery::process": ["e2e"],
    # stand-in for the Kani comparison harnesses when they do not build against a tree: comparisons through the public evaluator
    "kani:cmp": ["e2e_cmp"],
}
# a per-unit group that does not compile against a tree -> the groups that reach the same functions through the public evaluator
GROUP_FALLBACK = {"cmp_struct": ["e2e_cmp"], "arith": ["text_arith", "e2e"], "name_lookup": ["e2e", "text_plain"], "descendant": ["e2e"], "selectors": ["e2e", "text_union"],
                  "regex": ["e2e_fn"], "pointer_text": ["e2e"]}
TARGET = os.path.join(VERIF, "native", "target")


# feature bucket -> source files whose private functions its groups call
BUCKETS = {"vx_cmp": ["src/query/comparison.rs"], "vx_seg": ["src/query/segment.rs"], "vx_sel": ["src/query/selector.rs"],
           "vx_fn": ["src/query/test_function.rs"], "vx_ptr": ["src/query/state.rs"]}
STD_SHAPES = ["vf_chain_collect", "vf_zip_all", "vf_enumerate_map_collect", "vf_into_map_collect", "vf_iter_map_collect", "vf_flat_map_collect_raw", "vf_iter_any", "vf_iter_all",
              "vf_enumerate_filter_map_collect_raw", "vf_filter_map_collect_raw", "vf_iter_fold", "vf_map_reduce_or", "vf_chars_count", "vf_str_lt", "vf_ref_map_flat_map_collect_raw"]


def std_shapes_module() -> str:
    """the assumed std-shape helpers of contracts/helpers.rs as plain Rust: signature without the contract clauses + the body verbatim
    (the body IS the std expression the rewrite rule E4 replaced); used by the bounded sanity check of those assumed contracts"""
    src = open(os.path.join(VERIF, "contracts", "helpers.rs")).read()
    out = ["// generated from contracts/helpers.rs by vx/native.py::std_shapes_module\npub mod std_shapes {\n"]
    for name in STD_SHAPES:
        m = re.search(r"pub fn " + name + r"(<.*?>)?\((.*?)\) -> \((\w+): (.*?)\)\n(.*?)\n\{ (.*?) \}\n", src, flags=re.S)
        if not m:
            raise RuntimeError(f"std shape helper {name} not found in contracts/helpers.rs")
        gen, params, _, ret, _, body = m.groups()
        out.append(f"    pub fn {name}{gen or ''}({params}) -> {ret} {{ {body} }}\n")
    out.append("}\n")
    return "".join(out)


def build(run) -> str | None:
    """returns the runner binary, or None (undecided) if the build failed"""
    if getattr(run, "_native_bin", None):
        return run._native_bin
    crate = os.path.join(run.scratch, "native-crate")
    subprocess.run(["rsync", "-a", "--exclude", "target", "--exclude", ".git", run.repo.root + "/", crate + "/"], check=True)
    from .kani import APPEND as KANI_APPEND
    for src, rel in EXPORTS + KANI_APPEND:   # the Kani harnesses are compiled natively too (replay of Kani counterexamples)
        with open(os.path.join(crate, rel), "a") as f:
            f.write(open(os.path.join(VERIF, src)).read())
    with open(os.path.join(crate, "src/query.rs"), "a") as f:
        f.write("\n// ===== appended by /verif (cfg(besok_jsonpath_rust_verif) only): bounded back end =====\n"
                "#[cfg(besok_jsonpath_rust_verif)]\n#[allow(dead_code, unused_imports, unused_variables)]\npub mod verif_native {\n")
        f.write(std_shapes_module())
        for m in MODULES:
            f.write(open(os.path.join(VERIF, "native", m)).read())
        f.write("\n}\n")
    # feature buckets: the groups that call PRIVATE functions of one source file (through the appended exports) are compiled only when
    # that bucket is on; if the tree changed such a function's signature, the bucket is dropped and only its groups become unavailable
    ct = os.path.join(crate, "Cargo.toml")
    toml = open(ct).read()
    feat = "".join(f"{b} = []\n" for b in BUCKETS)
    toml = toml.replace("[features]\n", "[features]\n" + feat, 1) if re.search(r"(?m)^\[features\]$", toml) else toml + "\n[features]\n" + feat
    open(ct, "w").write(toml)
    runner = os.path.join(run.scratch, "native-runner")
    os.makedirs(os.path.join(runner, "src"), exist_ok=True)
    with open(os.path.join(runner, "src/main.rs"), "w") as f:
        f.write("fn main() { jsonpath_rust::query::verif_native::main() }\n")
    lock = os.path.join(run.repo.root, "Cargo.lock")
    if os.path.exists(lock):
        subprocess.run(["cp", lock, os.path.join(runner, "Cargo.lock")])
    env = dict(os.environ, CARGO_NET_OFFLINE="true", CARGO_TARGET_DIR=TARGET,
               RUSTFLAGS="--cfg besok_jsonpath_rust_verif -A unexpected_cfgs -A warnings")
    t0 = time.time()
    # the target directory is a shared build cache for the dependencies; the runner binary it produces is copied into
    # this run's scratch directory under a lock, so that concurrent checks (other trees!) never run each other's binary
    import fcntl, shutil
    os.makedirs(TARGET, exist_ok=True)

    def attempt(on: list) -> subprocess.CompletedProcess:
        with open(os.path.join(runner, "Cargo.toml"), "w") as f:
            f.write('[package]\nname = "verif-native-runner"\nversion = "0.0.0"\nedition = "2021"\n\n[dependencies]\n'
                    'jsonpath-rust = { path = "../native-crate", features = [' + ", ".join(f'"{b}"' for b in on) + '] }\n\n'
                    '[profile.dev]\nopt-level = 1\noverflow-checks = true\ndebug = false\n')
        with open(os.path.join(TARGET, ".verif-lock"), "w") as lk:
            fcntl.flock(lk, fcntl.LOCK_EX)
            p = subprocess.run(["cargo", "build", "--offline", "-q"], cwd=runner, env=env, capture_output=True, text=True)
            if p.returncode == 0:
                shutil.copy2(os.path.join(TARGET, "debug", "verif-native-runner"), os.path.join(run.scratch, "verif-native-runner"))
            fcntl.flock(lk, fcntl.LOCK_UN)
        return p

    on = list(BUCKETS)
    p = attempt(on)
    dropped = []
    while p.returncode != 0 and on:
        # drop the buckets whose source files the errors point at; if none can be told, drop them all (public-API groups only)
        blamed = [b for b in on if any(re.search(r"-->\s*\S*" + re.escape(f), p.stderr) for f in BUCKETS[b])]
        if not blamed:
            blamed = list(on)
        for b in blamed:
            on.remove(b)
            dropped.append(b)
        p = attempt(on)
    run.native_build_s = time.time() - t0
    if p.returncode != 0:
        run.undecided.append("native back end does not build against this tree: " + p.stderr[-600:].replace("\n", " | "))
        return None
    run._native_dropped = dropped
    if dropped:
        run.notes.append("bounded groups that call private functions of " + ", ".join(sorted({f for b in dropped for f in BUCKETS[b]})) +
                         " were left out: they do not compile against this tree (a signature changed)")
    run._native_bin = os.path.join(run.scratch, "verif-native-runner")
    return run._native_bin


def run_groups(run, groups: list[str], only=None) -> list[dict] | None:
    binp = build(run)
    if not binp:
        return None
    cache = getattr(run, "_native_cache", {})
    run._native_cache = cache
    todo = [g for g in groups if (g, only) not in cache]
    if todo:
        cmd = [binp, ",".join(todo), run.tier, str(run.seed)] + ([str(only[0]), str(only[1])] if only else [])
        t0 = time.time()
        try:
            p = subprocess.run(cmd, capture_output=True, text=True, timeout=7200)
        except subprocess.TimeoutExpired:
            run.undecided.append(f"native groups {todo}: timeout")
            return None
        if p.returncode == 3 and '"hang"' in p.stdout:
            # the real code did not return within 300 s on one input: a termination violation, with the input
            h = json.loads(p.stdout.strip().splitlines()[-1])["hang"]
            os.makedirs(os.path.join(VERIF, "replays"), exist_ok=True)
            path = os.path.join(VERIF, "replays", f"{run.prop}_{h['group']}_terminates.json")
            with open(path, "w") as fh:
                json.dump({"property": run.prop, "unit": h["group"], "backend": "native-bounded", "group": h["group"], "tier": run.tier, "seed": run.seed,
                           "failed_obligations": [h["group"] + ".terminates"], "counterexample": h}, fh, indent=1)
            if run.prop in ("C08", "C11"):
                run.violations.append({"unit": h["group"], "obligations": [h["group"] + ".terminates"], "features": [], "replay": path, "cex": h})
            else:
                run.undecided.append(f"native group {h['group']}: the real code hangs on {h['evaluation'][:200]} (reported under C08/C11)")
            return None
        if p.returncode != 0:
            run.undecided.append(f"native groups {todo}: runner failed: " + p.stderr[-400:])
            return None
        for r in json.loads(p.stdout):
            r["wall_s"] = round(time.time() - t0, 2)
            cache[(r["group"], only)] = r
        run.checker_cmds.append("verif-native-runner " + " ".join(cmd[1:]))
    return [cache[(g, only)] for g in groups]


def _record_failure(run, g, f):
    unit = f["obligation"].rsplit(".", 1)[0]
    os.makedirs(os.path.join(VERIF, "replays"), exist_ok=True)
    tag = re.sub(r"\W+", "_", f["obligation"] + "_" + "_".join(f["features"]))[:120]
    path = os.path.join(VERIF, "replays", f"{run.prop}_{tag}.json")
    w = f["witnesses"][0] if f["witnesses"] else {}
    doc = {"property": run.prop, "unit": unit, "backend": "native-bounded", "group": g, "tier": run.tier, "seed": run.seed,
           "failed_obligations": [f["obligation"]], "input_features": f["features"], "count": f["count"],
           "counterexample": w, "more_witnesses": f["witnesses"][1:]}
    with open(path, "w") as fh:
        json.dump(doc, fh, indent=1)
    run.violations.append({"unit": unit, "obligations": [f["obligation"]], "features": f["features"], "replay": path, "cex": w, "count": f["count"]})


def run_for(run):
    spec = GROUPS.get(run.prop, [])
    if not spec:
        return
    if run.prop == "C12":
        probe_send_sync(run)     # first: if the types are no longer shareable the bounded runner (which shares them) will not build either
    # every property whose proof uses the assumed std-shape contracts also runs their bounded sanity check
    spec = list(spec) + (THOROUGH_GROUPS.get(run.prop, []) if run.tier == "thorough" else []) + [("helpers", ["helpers."])]
    res = run_groups(run, [g for g, _ in spec])
    if res is None:
        return
    ev = run.bounded
    for (g, prefixes), r in zip(spec, res):
        if r.get("unavailable"):
            why = (f"bounded group {g} is not available against this tree (it calls private functions of {', '.join(BUCKETS.get(r['unavailable'], [r['unavailable']]))}, "
                   f"whose signatures changed)")
            # the same functions are reached through the public evaluator by another group: that group stands in (resolved by the driver)
            fb = GROUP_FALLBACK.get(g)
            if fb:
                run.standin_candidates.append((f"group:{g}", why, {"unit": f"bounded group {g}", "backend": "native-bounded", "status": "undecided", "reason": why}))
                CEX_GROUPS[f"group:{g}"] = fb
            else:
                run.undecided.append(why + f"; its obligations {prefixes} are undecided")
            continue
        ev["evaluations"] = ev.get("evaluations", 0) + r["evaluations"]
        ev["distinct_nontrivial"] = ev.get("distinct_nontrivial", 0) + r["distinct_nontrivial"]
        ev.setdefault("bounded_groups", []).append({"group": g, "evaluations": r["evaluations"], "distinct_nontrivial": r["distinct_nontrivial"],
                                                    "obligations": prefixes, "wall_s": r.get("wall_s")})
        for s in r.get("samples", [])[:3]:
            run.samples.append({"bounded_group": g, "case": s})
        for f in r["failures"]:
            if not any(f["obligation"].startswith(p) for p in prefixes):
                continue
            if g == "helpers":
                # an ASSUMED contract of the trusted base does not hold on this toolchain: the proofs that use it decide nothing
                run.undecided.append(f"assumed std contract {f['obligation']} fails its bounded sanity check: {json.dumps(f['witnesses'][:1])[:200]}")
                continue
            _record_failure(run, g, f)
    if run.prop == "C08":
        for f in run_deep(run) or []:
            _record_failure(run, "deep", f)
    if run.prop == "C12":
        for f in run_purity_x(run) or []:
            _record_failure(run, "purity_x", f)
    ev["rule"] = ("bounded contract evaluation of the real functions against the executable RFC 9535 mirror (native/mirror.rs); inputs enumerated by "
                  "native/gen.rs: all documents of depth <= 1 over 15 leaves plus curated and seeded random documents of depth <= 3; ASTs built directly "
                  "(never through the parser) from the selector / filter menus, 1-3 segments; a case is non-trivial when the expected or observed nodelist "
                  "is non-empty (per-unit groups: when the contract's expected result is non-empty)")



# ---- C12: "from many threads at once" presupposes that a parsed query and the results can be shared between threads at all.  rustc decides that
# (auto traits Send / Sync); a probe crate asserts it for the public types.  A tree in which the probe does not compile while the crate itself does
# has lost the property at the type level (e.g. an Rc inside the AST): reported as a violation of purity.send_sync with the compiler's words.
SEND_SYNC_PROBE = """use jsonpath_rust::parser::model::JpQuery;
use jsonpath_rust::query::QueryRef;
use serde_json::Value;
fn assert_send_sync<T: Send + Sync>() {}
fn main() {
    assert_send_sync::<JpQuery>();
    assert_send_sync::<QueryRef<'static, Value>>();
    let q: JpQuery = jsonpath_rust::parser::parse_json_path("$.a[?@.b == 1]").unwrap();
    let d: Value = serde_json::json!({"a": [{"b": 1}]});
    let n: usize = std::thread::scope(|s| { let h: Vec<_> = (0..2).map(|_| s.spawn(|| jsonpath_rust::query::js_path_process(&q, &d).unwrap().len())).collect();
                                           h.into_iter().map(|x| x.join().unwrap()).sum() });
    assert_eq!(n, 2);
}
"""


def probe_send_sync(run):
    import fcntl
    # a plain copy of the tree (nothing appended: the appended bounded back end may itself not compile against a changed AST)
    crate = os.path.join(run.scratch, "plain-crate")
    subprocess.run(["rsync", "-a", "--exclude", "target", "--exclude", ".git", run.repo.root + "/", crate + "/"], check=True)
    probe = os.path.join(run.scratch, "sendsync-probe")
    os.makedirs(os.path.join(probe, "src"), exist_ok=True)
    with open(os.path.join(probe, "src/main.rs"), "w") as f:
        f.write(SEND_SYNC_PROBE)
    with open(os.path.join(probe, "Cargo.toml"), "w") as f:
        f.write('[package]\nname = "verif-sendsync-probe"\nversion = "0.0.0"\nedition = "2021"\n\n[dependencies]\n'
                'jsonpath-rust = { path = "../plain-crate" }\nserde_json = "1"\n\n[profile.dev]\nopt-level = 1\noverflow-checks = true\ndebug = false\n')
    lock = os.path.join(run.repo.root, "Cargo.lock")
    if os.path.exists(lock):
        subprocess.run(["cp", lock, os.path.join(probe, "Cargo.lock")])
    env = dict(os.environ, CARGO_NET_OFFLINE="true", CARGO_TARGET_DIR=TARGET, RUSTFLAGS="--cfg besok_jsonpath_rust_verif -A unexpected_cfgs -A warnings")
    os.makedirs(TARGET, exist_ok=True)
    with open(os.path.join(TARGET, ".verif-lock"), "w") as lk:
        fcntl.flock(lk, fcntl.LOCK_EX)
        p = subprocess.run(["cargo", "run", "--offline", "-q"], cwd=probe, env=env, capture_output=True, text=True)
        fcntl.flock(lk, fcntl.LOCK_UN)
    run.obligations += 1
    rep = {"unit": "public types JpQuery, QueryRef<Value> (auto traits Send + Sync; two threads share one parsed query and one document)", "backend": "rustc",
           "obligations": 1, "status": "proved" if p.returncode == 0 else "failed"}
    run.unit_reports.append(rep)
    if p.returncode == 0:
        run.discharged += 1
        rep["discharged"] = 1
        run.samples.append({"obligation": "purity.send_sync", "unit": "JpQuery / QueryRef", "backend": "rustc (auto traits)", "result": "discharged"})
        return
    err = p.stderr
    only_probe = "verif-sendsync-probe" in err and not re.search(r"could not compile `jsonpath-rust`", err)
    if only_probe and re.search(r"E0277", err) and re.search(r"cannot be (sent|shared) between threads safely", err):
        os.makedirs(os.path.join(VERIF, "replays"), exist_ok=True)
        path = os.path.join(VERIF, "replays", f"{run.prop}_purity_send_sync.json")
        with open(path, "w") as fh:
            json.dump({"property": run.prop, "unit": "JpQuery / QueryRef", "backend": "rustc", "group": "send_sync", "failed_obligations": ["purity.send_sync"],
                       "verifier_output": err[-3000:], "probe": SEND_SYNC_PROBE, "counterexample": None}, fh, indent=1)
        run.violations.append({"unit": "purity", "obligations": ["purity.send_sync"], "features": [], "replay": path, "cex": None})
        rep["verifier_output"] = err[-1500:]
    else:
        rep["status"] = "undecided"
        run.undecided.append("purity.send_sync: the probe crate does not build for another reason than Send/Sync: " + err[-300:].replace("\n", " | "))


# ---- C12: one process = one history.  The same pairs are evaluated in four orders, each in a fresh process; a pair whose result differs
# between two processes depends on what was evaluated before it (process-wide or per-thread state).
def run_purity_x(run, only=None):
    NONE = 999999999
    orders = [0, 1, 2, 3]
    digs = {}
    for k in orders:
        res = run_groups(run, ["purity_x"], only=(k, NONE))
        if not res:
            return None
        d = [x for x in res[0].get("samples", []) if isinstance(x, dict) and "digests" in x]
        if not d:
            run.undecided.append("purity_x: no digests")
            return None
        digs[k] = d[0]["digests"]
        run.bounded["evaluations"] = run.bounded.get("evaluations", 0) + res[0]["evaluations"]
    run.bounded.setdefault("bounded_groups", []).append({"group": "purity_x", "evaluations": sum(len(v) for v in digs.values()), "obligations": ["purity.fresh_process"],
        "bound": "the pairs of the purity group evaluated in 4 orders (forward, backward, document-major, shuffled), each order in its own process; results compared per pair"})
    fails = []
    n = len(digs[0])
    bad = [i for i in range(n) if len({digs[k][i] for k in orders}) > 1]
    for i in bad[:3]:
        shown = []
        for k in orders:
            res = run_groups(run, ["purity_x"], only=(k, i))
            shown += [x for x in (res[0].get("samples", []) if res else []) if isinstance(x, dict) and x.get("pair") == i]
        w = {"pair": i, "qi": 0, "di": i, "text": shown[0]["text"] if shown else None, "doc": shown[0]["doc"] if shown else None,
             "results_by_order": {str(x["order"]): x["result"] for x in shown}, "orders": "0 forward, 1 backward, 2 document-major, 3 shuffled; each in a fresh process"}
        fails.append({"obligation": "purity.fresh_process", "features": [], "count": len(bad), "witnesses": [w]})
        break
    return fails


# ---- C08: deep nesting.  One process per probe (a stack overflow aborts the process; a run-away parse is stopped by RLIMIT_CPU).
DEEP_PROBES = ["parens", "not_parens", "fn_nesting_valid", "fn_nesting_invalid", "nested_filters", "doc_descendant", "doc_eq", "segments", "cmp_nesting"]
DEEP_CPU_S = 20
# must-hold depths (a failure is a violation) and demonstration depths of the recorded findings (a failure there is the known finding;
# on the unchanged tree the smallest failing depths are 4096..65536 for the recursion probes on an 8 MiB stack, and 16 for the
# invalid function nesting under a 20 s CPU limit: both sets keep a factor >= 2 from those boundaries)
DEEP_MUST = {"default": [16, 256, 1024], "fn_nesting_invalid": [4, 8], "segments": [16, 1024, 65536], "cmp_nesting": [8, 32, 64]}
DEEP_MUST_THOROUGH = {"default": [4, 64, 512], "fn_nesting_invalid": [2, 6, 10], "segments": [262144], "cmp_nesting": [128]}
DEEP_DEMO = {"default": [65536], "fn_nesting_invalid": [24], "segments": [], "cmp_nesting": []}


def build_opt0(run):
    """the same runner built without optimisation (only the `segments` deep probe uses it)"""
    if getattr(run, "_native_bin0", None):
        return run._native_bin0
    if not build(run):
        return None
    import fcntl, shutil
    runner = os.path.join(run.scratch, "native-runner")
    env = dict(os.environ, CARGO_NET_OFFLINE="true", CARGO_TARGET_DIR=TARGET, RUSTFLAGS="--cfg besok_jsonpath_rust_verif -A unexpected_cfgs -A warnings",
               CARGO_PROFILE_DEV_OPT_LEVEL="0")
    with open(os.path.join(TARGET, ".verif-lock"), "w") as lk:
        fcntl.flock(lk, fcntl.LOCK_EX)
        p = subprocess.run(["cargo", "build", "--offline", "-q"], cwd=runner, env=env, capture_output=True, text=True)
        if p.returncode == 0:
            shutil.copy2(os.path.join(TARGET, "debug", "verif-native-runner"), os.path.join(run.scratch, "verif-native-runner-opt0"))
        fcntl.flock(lk, fcntl.LOCK_UN)
    if p.returncode != 0:
        run.undecided.append("the unoptimised build of the bounded runner failed: " + p.stderr[-300:].replace("\n", " | "))
        return None
    run._native_bin0 = os.path.join(run.scratch, "verif-native-runner-opt0")
    return run._native_bin0


def deep_one(binp, pi: int, depth: int):
    import resource
    def lim():
        resource.setrlimit(resource.RLIMIT_CPU, (DEEP_CPU_S, DEEP_CPU_S + 5))
    t0 = time.time()
    try:
        p = subprocess.run([binp, "deep", "quick", "0", str(pi), str(depth)], capture_output=True, text=True, timeout=600, preexec_fn=lim)
    except subprocess.TimeoutExpired:
        return {"outcome": "undecided", "detail": "wall-clock timeout 600 s before the CPU limit"}
    wall = round(time.time() - t0, 2)
    if p.returncode == 0 and p.stdout.strip():
        r = json.loads(p.stdout.strip().splitlines()[-1])
        r["wall_s"] = wall
        return r
    if p.returncode in (-24, -9):      # SIGXCPU / SIGKILL from RLIMIT_CPU
        return {"outcome": "cpu_limit", "detail": f"no result after {DEEP_CPU_S} s of CPU time (killed by RLIMIT_CPU)", "wall_s": wall}
    if p.returncode in (-6, -11) :
        return {"outcome": "stack_overflow" if "overflowed its stack" in p.stderr or p.returncode == -11 else "abort", "detail": p.stderr.strip()[-200:], "wall_s": wall}
    return {"outcome": "undecided", "detail": f"exit {p.returncode}: {p.stderr[-200:]}"}


def run_deep(run, only=None):
    """returns the list of failure records (same shape as the runner's) of the deep-nesting probes"""
    binp = build(run)
    if not binp:
        return None
    fails, n, rows = [], 0, []
    for pi, probe in enumerate(DEEP_PROBES):
        must = list(DEEP_MUST.get(probe, DEEP_MUST["default"])) + (DEEP_MUST_THOROUGH.get(probe, DEEP_MUST_THOROUGH["default"]) if run.tier == "thorough" else [])
        demo = DEEP_DEMO.get(probe, DEEP_DEMO["default"])
        for depth in sorted(must) + demo:
            if only and only != (pi, depth):
                continue
            r = deep_one(binp, pi, depth)
            n += 1
            rows.append({"probe": probe, "depth": depth, "outcome": r["outcome"], "seconds": r.get("seconds", r.get("wall_s"))})
            if r["outcome"] == "ok":
                continue
            if r["outcome"] == "undecided":
                run.undecided.append(f"deep probe {probe} depth {depth}: {r['detail']}")
                continue
            ob = {"stack_overflow": "deep.no_stack_overflow", "abort": "deep.no_stack_overflow", "cpu_limit": "deep.bounded_time", "panic": "deep.no_panic", "wrong": "deep.result"}[r["outcome"]]
            feats = [probe, ("nesting-depth>=4096" if depth >= 4096 else "nesting-depth<=1024") if probe != "fn_nesting_invalid" else ("invalid-function-nesting>=16" if depth >= 16 else "invalid-function-nesting<=10")]
            fails.append({"obligation": ob, "features": feats, "count": 1, "witnesses": [dict(r, probe=probe, depth=depth, qi=pi, di=depth)]})
            break      # deeper probes of the same kind would fail the same way
    # a long FLAT query (no nesting at all) in an UNOPTIMISED build: the evaluator's walk over the segment list is a fold; written as a
    # recursion it still passes every optimised build (tail call) and overflows the stack of a debug build, which is what `cargo test` users run
    if not only or only[0] == DEEP_PROBES.index("segments"):
        bin0 = build_opt0(run)
        if bin0:
            pi = DEEP_PROBES.index("segments")
            for depth in [1024, 65536] + ([262144] if run.tier == "thorough" else []):
                if only and only != (pi, depth):
                    continue
                r = deep_one(bin0, pi, depth)
                n += 1
                rows.append({"probe": "segments (opt-level 0)", "depth": depth, "outcome": r["outcome"], "seconds": r.get("seconds", r.get("wall_s"))})
                if r["outcome"] == "ok":
                    continue
                if r["outcome"] == "undecided":
                    run.undecided.append(f"deep probe segments (opt-level 0) depth {depth}: {r['detail']}")
                    continue
                ob = {"stack_overflow": "deep.no_stack_overflow", "abort": "deep.no_stack_overflow", "cpu_limit": "deep.bounded_time", "panic": "deep.no_panic", "wrong": "deep.result"}[r["outcome"]]
                fails.append({"obligation": ob, "features": ["segments", "flat-query", "unoptimised-build"], "count": 1, "witnesses": [dict(r, probe="segments", depth=depth, qi=pi, di=depth, build="opt-level 0")]})
                break
    run.bounded["evaluations"] = run.bounded.get("evaluations", 0) + n
    run.bounded.setdefault("bounded_groups", []).append({"group": "deep", "evaluations": n, "obligations": ["deep.no_stack_overflow", "deep.bounded_time", "deep.no_panic", "deep.result"],
        "bound": f"one process per probe, 8 MiB stack, {DEEP_CPU_S} s CPU limit; nesting depths {DEEP_MUST} must hold, {DEEP_DEMO} demonstrate the recorded findings", "rows": rows})
    return fails


def search_counterexample(run, unit: str, failed: list[str]):
    """a Verus obligation failed: look for a concrete failing input of the same unit with the bounded evaluator"""
    groups = CEX_GROUPS.get(unit) or ["e2e"]
    try:
        res = run_groups(run, groups)
    except Exception:
        return None
    if not res:
        return None
    for r in res:
        # only obligations some property listens to count (the others are by-products nobody claims, e.g. the path text seen by a function group)
        listened = {p for spec in list(GROUPS.values()) + list(THOROUGH_GROUPS.values()) for g, ps in spec if g == r["group"] for p in ps}
        for f in r["failures"]:
            from . import findings
            if not any(f["obligation"].startswith(p) for p in listened):
                continue
            v = {"unit": f["obligation"].rsplit(".", 1)[0], "obligations": [f["obligation"]], "features": f["features"]}
            if findings.match_open(None, v):
                continue
            if f["witnesses"]:
                return {"group": r["group"], "obligation": f["obligation"], "input": f["witnesses"][0], "count": f["count"]}
    return None


def replay(run, doc) -> int:
    w = doc.get("counterexample") or {}
    only = (w.get("qi", 0), w.get("di", 0))
    run.tier, run.seed = doc.get("tier", "quick"), doc.get("seed", 0)
    if doc["group"] == "purity_x":
        fs = run_purity_x(run) or []
        print(json.dumps(fs, indent=1)[:3000])
        print("replay:", "violation reproduced on the real code" if fs else "not reproduced")
        return 1 if fs else 0
    if doc["group"] == "deep":
        fs = run_deep(run, only=only) or []
        hits = [f for f in fs if f["obligation"] in doc["failed_obligations"]]
        print(json.dumps(hits, indent=1)[:3000])
        print("replay:", "violation reproduced on the real code" if hits else "not reproduced")
        return 1 if hits else 0
    res = run_groups(run, [doc["group"]], only=only)
    if not res:
        return 2
    hits = [f for f in res[0]["failures"] if f["obligation"] in doc["failed_obligations"]]
    print(json.dumps(hits, indent=1)[:3000])
    print("replay:", "violation reproduced on the real code" if hits else "not reproduced")
    return 1 if hits else 0
