"""Bounded contract evaluation on the real crate (native back end) — see DESIGN.md 3.3."""
from __future__ import annotations


def search_counterexample(run, unit: str, failed: list[str]):
    return None


def run_for(run):
    return
