"""known_findings.json: committed, never written at run time."""
from __future__ import annotations
import json, os
from .world import VERIF


def load():
    p = os.path.join(VERIF, "known_findings.json")
    if not os.path.exists(p):
        return []
    return json.load(open(p)).get("findings", [])


def match_open(prop: str, violation: dict):
    """a violation is covered iff an OPEN finding names the same unit and the same obligation(s)
    and (for bounded units) the failing input belongs to the finding's input class"""
    for f in load():
        if f.get("status") != "open" or f.get("property") != prop or f.get("unit") != violation.get("unit"):
            continue
        obs = set(violation.get("obligations", []))
        if obs and obs <= set(f.get("obligations", [])):
            cls = f.get("input_class")
            if cls and violation.get("input_class") != cls:
                continue
            return f"{f['id']}: {f['what']}"
    return None
