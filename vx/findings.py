"""known_findings.json: committed, never written at run time."""
from __future__ import annotations
import json, os
from .world import VERIF


def load():
    p = os.path.join(VERIF, "known_findings.json")
    if not os.path.exists(p):
        return []
    return json.load(open(p)).get("findings", [])


def match_open(prop, violation: dict):
    """a violation is covered iff an OPEN finding lists the same obligation (for this property) and the failing
    input belongs to the finding's input class.  Verus/Kani obligations carry no input class, so they are never
    covered by a finding: a failed proof obligation on this tree is always reported."""
    obs = set(violation.get("obligations", []))
    feats = set(violation.get("features", []) or [])
    for f in load():
        if f.get("status") != "open":
            continue
        if prop is not None and prop not in f.get("properties", []):
            continue
        if not obs or not obs <= set(f.get("obligations", [])):
            continue
        cls = f.get("input_class")
        # a list of classes: the failing input must belong to one of them
        if cls and not (set(cls) & feats if isinstance(cls, list) else cls in feats):
            continue
        n = violation.get("count")
        return f"{f['id']} {sorted(obs)[0]} [{cls}]" + (f" ({n} inputs in this run)" if n else "") + f": {f['what'][:160]}"
    return None
