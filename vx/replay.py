from __future__ import annotations
import json, sys


def replay(prop: str, path: str) -> int:
    doc = json.load(open(path))
    print(json.dumps(doc, indent=1)[:4000])
    from .driver import Run
    run = Run(prop, "quick", 0)
    try:
        if doc.get("backend") == "verus":
            r = run.verus_unit(doc["unit"])
            print(f"re-run of unit {doc['unit']}: {r.status} {r.reason}")
            for f in r.failures:
                print("  ", f.clause, "|", f.kind)
            return 1 if r.status == "failed" else (0 if r.status == "proved" else 2)
        from . import native
        if doc.get("backend") == "rustc":
            native.probe_send_sync(run)
            hit = any("purity.send_sync" in v.get("obligations", []) for v in run.violations)
            print("replay:", "the probe still does not compile: the types are not Send + Sync" if hit else "not reproduced")
            return 1 if hit else 0
        if doc.get("backend") == "kani":
            import subprocess
            binp = native.build(run)
            cex = doc.get("counterexample", {})
            if not binp or "replay_cmd" not in cex:
                print("no concrete values recorded; re-run the check")
                return 2
            args = cex["replay_cmd"].split()[1:]
            p = subprocess.run([binp] + args, capture_output=True, text=True)
            print(p.stdout)
            return 1 if '"reproduced":true' in p.stdout.replace(" ", "") else 0
        return native.replay(run, doc)
    finally:
        run.cleanup()
