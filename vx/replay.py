from __future__ import annotations
import json, sys


def replay(prop: str, path: str) -> int:
    doc = json.load(open(path))
    print(json.dumps(doc, indent=1)[:4000])
    from .driver import Run
    run = Run(prop, "quick", 0)
    try:
        if doc.get("backend") == "verus":
            r = run.verus_unit(doc["unit"])
            print(f"re-run of unit {doc['unit']}: {r.status} {r.reason}")
            for f in r.failures:
                print("  ", f.clause, "|", f.kind)
            return 1 if r.status == "failed" else (0 if r.status == "proved" else 2)
        from . import native
        return native.replay(run, doc)
    finally:
        run.cleanup()
