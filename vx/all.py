"""python3 -m vx.all [filter] — verify every proved unit (parallel) and print a status table"""
import sys, re
from concurrent.futures import ThreadPoolExecutor
from .driver import Run

def main():
    flt = sys.argv[1] if len(sys.argv) > 1 else ""
    run = Run("ALL", "quick", 0)
    names = [n for n, u in sorted(run.units.items(), key=lambda kv: (kv[1].order, kv[0])) if u.status == "proved" and re.search(flt, n)]
    with ThreadPoolExecutor(max_workers=12) as ex:
        rs = list(ex.map(run.verus_unit, names))
    bad = 0
    for n, r in zip(names, rs):
        extra = ""
        if r.status == "failed":
            extra = ", ".join(sorted({f.clause or f.kind for f in r.failures}))
        elif r.status != "proved":
            extra = r.reason[:200]
        print(f"{r.status:10s} {n:40s} {r.wall_s:5.1f}s rlimit={r.rlimit:9d} {extra}")
        bad += r.status != "proved"
    print(f"{len(names) - bad}/{len(names)} proved")
    run.cleanup()

main()
