"""Per-property configuration: which units decide it, by which back end, and how it is explained."""
from __future__ import annotations
import re

COMMON_ASSUME = [
    "usize is 64 bits; array length < 2^62 (Queryable::as_array contract)",
    "AST integers are in the I-JSON range (parser call sites of validate_range are pest code; validate_range itself is proved)",
    "implementors of Queryable are faithful (accessor contracts in contracts/queryable_trait.rs)",
    "extraction rules E1-E12 / E1b preserve meaning (generated worlds are re-type-checked by rustc; each application is logged)",
    "machine arithmetic is NOT treated as mathematical: Verus generates overflow / bounds obligations for every i64 / usize operation of the verified bodies and none is assumed away; "
    "f64 is never reasoned about in Verus (cmp_numbers is an assumed unit there) and is decided bit-precisely by the Kani harnesses",
    "the crate contains no unsafe code (scanned on every C12 run); the assumed std-shape contracts of contracts/helpers.rs are sanity-checked by the bounded `helpers` group on every run",
]
PROPS = {
    "C01": {
        "level": "other",
        "explanation": "Mixed. PROVED (Verus, unbounded, modular): every function from js_path / js_path_process down to the leaf "
                       "selectors meets a contract stated with the RFC 9535 spec functions (contracts/spec_*.rs); js_path_process (and the trait entry "
                       "points of src/lib.rs) return, for EVERY well-formed query, exactly the RFC nodes with their multiplicities "
                       "(ms(result) == ms(rfc_query): post.nodes; permutation lemmas in contracts/spec_multiset.rs) and, when no multi-selector segment "
                       "receives several input nodes, exactly the RFC sequence (post.nodelist). process_descendant and process_selectors are proved units. "
                       "ASSUMED in those proofs and BOUNDED-checked on the real functions: "
                       "Pointer::key/idx text, normalize_json_key + Queryable::get, the iterator-shape helper contracts. "
                       "BOUNDED (native): js_path_process vs the executable rfc_query on all (AST, document) pairs inside the stated bound, "
                       "location by pointer identity.",
        "assumptions": COMMON_ASSUME + ["the ORDER of a multi-selector segment that receives several input nodes is the known finding KF-C02-union-order; the multiset claim covers it"],
    },
    "C02": {
        "level": "other",
        "explanation": "Mixed. PROVED (Verus): Data::reduce keeps the left operand first and removes nothing; Data::flat_map / State::flat_map "
                       "concatenate per input node in input order; slice index sequence (ascending/descending); wildcard and filter child order; "
                       "segment fold; `..` pre-order (process_descendant proved; expanding to containers only is proved RFC-exact); process_selectors: its exact "
                       "(by-selector) order is proved, and proved to BE the RFC order for at most one input node — the rest is the open known finding. "
                       "All specs are sequences, so every C01 obligation is an ordering obligation. BOUNDED: end-to-end order and multiplicity.",
        "assumptions": COMMON_ASSUME,
    },
    "C03": {
        "level": "other",
        "explanation": "Mixed. PROVED (Verus): which step is appended — the normalised non-negative in-range index with the element it denotes "
                       "(process_index, process_slice), the real index / member name of each child (wildcard, filter), `$` for the root, "
                       "projection of (node, path) to the caller. BOUNDED (native): the TEXT of a step (Pointer::key / Pointer::idx are format! code), "
                       "injectivity, and re-querying a reported path.",
        "assumptions": COMMON_ASSUME,
    },
    "C04": {
        "level": "proof",
        "explanation": "Kani (CBMC) proves the real eq / lt on all scalar operands: loop-free harnesses over ALL i64 and ALL finite f64, every "
                       "Value/Ref/Nothing operand shape, against an exact oracle (f64 bit decomposition compared in i128). Verus proves the operator "
                       "dispatch of Comparison::process (!=, <=, >, >= derived from == and <), Comparison::vals, Comparison::try_new (token -> variant), "
                       "literal and singular-query operand evaluation.",
        "assumptions": COMMON_ASSUME + ["strings: str ordering of std is Unicode scalar order (UTF-8 byte order); two-element string set in the Kani harness",
                                        "arrays/objects: structural equality is delegated to T: PartialEq (bounded check only; known finding for numbers nested in containers)"],
    },
    "C05": {
        "level": "other",
        "explanation": "Mixed. PROVED (Verus): Filter::select_children keeps exactly the children with filter_truth, in order, with idx/key paths; "
                       "process_elem (or = exists, and = forall), filter_item, FilterAtom::process (negation; a query test is true iff its nodelist is "
                       "non-empty, whatever the value), invert_bool, Test::process (`$` re-roots), the filter selector applied to `@`. filter_truth is a "
                       "mutually recursive spec function over the real AST. BOUNDED: nested filters and all valuations of small formulas end to end. "
                       "Precedence of && over || is in the pest grammar: not covered.",
        "assumptions": COMMON_ASSUME + ["representation invariant: a pointer with an empty path denotes `@` (stated as is_cur in every filter-mode contract)"],
    },
    "C08": {
        "level": "proof",
        "verus_policy": "safety",
        "own_clauses": ["js_path_process.post.ok", "validate_range.post.ok", "validate_range.post.err", "js_path.post.parse_err"],
        "explanation": "Scoped to the arithmetic core and the Ok/Err mapping. Verus proves, for all lengths < 2^62 and all I-JSON integers: no overflow, "
                       "no out-of-bounds access, termination of both slice loops (decreases), and that js_path_process returns Ok for every well-formed "
                       "query (the state never becomes a Value at top level). validate_range is proved to accept exactly the I-JSON range. Kani probes "
                       "process_index without precondition (shows the I-JSON precondition is necessary: i64::MIN). Parser panics, stack depth and "
                       "parse time are outside both verifiers: bounded deep-nesting probes (one process each, 8 MiB stack, 20 s CPU limit; nesting depth "
                       "<= 1024 must hold; a flat query of 65 536 segments also in an UNOPTIMISED build of the runner) stand in, and the two genuine defects they reproduce on the unchanged tree are recorded as known findings.",
        "assumptions": COMMON_ASSUME + ["exec termination of the recursive evaluator is not claimed (exec_allows_no_decreases_clause); only the slice loops",
                                         "stack depth is not modelled by Verus or Kani: the no-stack-exhaustion clause is bounded only (deep probes), with two open known findings"],
    },
    "C12": {
        "level": "other",
        "verus_policy": "own",
        "own_clauses": ["js_path_process.post.eval", "js_path.post.eval", "js_path_vals.post.projection", "js_path_path.post.projection",
                        "JsonPath::query.post.projection", "JsonPath::query_only_path.post.projection", "JsonPath::query_with_path.post.eval"],
        "explanation": "Mixed. PROVED (Verus): every public entry point returns a position-wise projection of ONE mathematical function of its arguments: "
                       "js_path_process: qnodes(result) == impl_query(query, document); js_path: the same for parsed(text); js_path_vals / js_path_path and the "
                       "trait methods query / query_only_path / query_with_path: same length, i-th value == impl_query(..)[i].inner, i-th path == impl_query(..)[i].path. "
                       "A postcondition `result == F(arguments)` with F a spec function is what history independence means for one call: whatever was evaluated "
                       "before, the call returns F(arguments); and evaluating a query parsed once equals parsing at every call because both equal impl_query(parsed(text), doc). "
                       "SIDE CONDITION (mechanical scan of /repo/src on every run): no global or interior-mutable state (static, thread_local, Cell/RefCell/Mutex/Atomic/Once*, "
                       "unsafe, clocks, environment, randomness) in the non-test code - with such state a functional contract on an assumed unit could be false. "
                       "DECIDED BY RUSTC (purity.send_sync): a probe crate asserts JpQuery: Send + Sync, QueryRef<Value>: Send + Sync and shares one parsed query between two threads. "
                       "BOUNDED (native group `purity`): the same (text, document) pairs first, again in the opposite and in a shuffled order, immediately repeated, through a query "
                       "parsed once, and from 8 threads sharing the parsed query and the document; plus the api_agree clauses of the through-the-parser groups.",
        "assumptions": COMMON_ASSUME + ["parse_json_path is a function of its text (assumed unit: `parsed` is an uninterpreted spec function)",
                                        "the regex engine and Queryable::extension_custom are functions of their arguments (assumed units)",
                                        "thread safety itself (Send/Sync, absence of data races) is rustc's guarantee for safe code, checked only by the scan for `unsafe` and by the bounded 8-thread run"],
    },
    "C10": {
        "level": "other",
        "explanation": "Mixed. PROVED (Verus): count (number of nodes, 0 for none), value (the single node or nothing), length (dispatch by kind; "
                       "chars().count() assumed = number of scalar values), TestFunction::apply routing, FnArg::process, the typing tables "
                       "is_res_bool / is_comparable, TestFunction::try_new (name / arity table), custom (argument hand-over to the extension hook) and regex: the "
                       "first operand is the subject and the second the pattern, an operand that is nothing / a nodelist / not a string -> false, an invalid "
                       "pattern -> false, search = Regex::find, match = Regex::is_match of the prepared pattern (the regex crate's types are opaque, its three "
                       "operations assumed). BOUNDED: prepare_regex (the pattern text: whole-string anchoring `^(?:p)$` of match) and the function end to end; "
                       "the regex engine is trusted.",
        "assumptions": COMMON_ASSUME + ["regex crate is trusted", "functions are well-typed per RFC 9535 2.4.3 (wf_fn)"],
    },
    "C11": {
        "level": "proof",
        "explanation": "Verus proves the verbatim bodies of process_index and process_slice (incl. its closures and both "
                       "loops) against the RFC 9535 2.3.3/2.3.4.2.2 spec functions for every length < 2^62 and every "
                       "I-JSON start/end/step/index; no unrolling, no bound.",
        "assumptions": COMMON_ASSUME,
    },
    "C14": {
        "level": "proof",
        "canary_units": ["custom", "TestFunction::try_new"],
        "explanation": "PROVED (Verus, unbounded): the real body of `impl Queryable for Value :: extension_custom` (src/query/queryable.rs) meets, for EVERY name and EVERY list of argument "
                       "values, the set-membership reading of the property (contracts/value_world.rs::c14_spec): with exactly two arguments and an array where one is required, "
                       "in(x, L) <=> some element of L equals x; nin = its negation; any_of(A, B) <=> some element of A equals some element of B; none_of = its negation; "
                       "subset_of(A, B) <=> every element of A equals some element of B (so [] is a subset of anything: lemma_c14_laws); in every other case (missing or surplus argument, "
                       "non-array, unknown name) the result is null. The type serde_json::Value is declared opaque in that world: its Clone, PartialEq (`equals` = the data type's own "
                       "equality, abstract kernel value_eq), as_array, From<bool> and Null are assumed contracts on the dependency. PROVED as well: `custom` (src/query/test_function.rs) evaluates "
                       "every argument on the current node and hands the VALUES over in written order - a value owned, a node borrowed, an argument that selects nothing not at all (so a missing "
                       "node makes the argument count differ from two: null); TestFunction::apply routes extension names there; FilterAtom::process reads a function result as a test "
                       "(true iff as_bool == Some(true): null is false, not an error) and negates it under `!`; js_path_process returns Ok. BOUNDED (native): the function itself on all pairs of a "
                       "35-value menu (nested, empty, non-arrays) with 0-3 arguments; end to end over ASTs and through the parser (missing nodes, literals, logical expressions as arguments).",
        "assumptions": COMMON_ASSUME + ["serde_json::Value is opaque in Verus (single-file mode cannot link the crate): Value::as_array, Value == Value, From<bool> for Value, Value::Null and Clone are assumed "
                                        "contracts over uninterpreted spec functions; `equals` in the property is read as the data type's own PartialEq (so 1 and 1.0 are different elements for these functions, "
                                        "unlike for `==` in a filter; recorded as an observation in DESIGN.md 11.8)",
                                        "extension-function arguments are values (wf_fn(Custom): literals, singular queries, value-typed functions, logical expressions); a non-singular query or a LogicalType "
                                        "function result as argument is outside the claim",
                                        "rule E11: the slice pattern `[a, b]` matches exactly the slices of length 2 (Rust reference); two &str with the same characters are equal (axiom_str_ext)",
                                        "that an unknown function name parses to TestFunction::Custom with a logical result (src/parser/model.rs, TestFunction::try_new: slice patterns over pest output) is covered "
                                        "only by the bounded through-the-parser group text_ext"],
    },
    "C15": {
        "level": "other",
        "verus_policy": "undecided",
        "explanation": "Mixed. Parametricity: every Verus proof is over an arbitrary T: Queryable and phrased only through the trait's spec accessors, so for the "
                       "proved units the result is a function of the trait view for ALL implementations. The comparison kernel is additionally proved by Kani "
                       "at a second faithful view (integers visible through as_i64 only). BOUNDED: end-to-end agreement of two other implementations with serde_json::Value: "
                       "kjson::J (association lists, also with reversed member order; integers through as_i64 only) and kjson::R (containers behind Rc, structurally equal subtrees "
                       "shared, so that one allocation is reachable by several paths).",
        "assumptions": COMMON_ASSUME + ["eq_json falls back to T: PartialEq for non-numbers (outside the accessor view; bounded only)"],
    },
}


def _impl_type(u) -> str | None:
    if not u.impl:
        return None
    m = re.search(r"impl(?:<[^>]*>)?\s+(?:[\w:]+(?:<[^>]*>)?\s+for\s+)?([A-Za-z_]\w*)", u.impl) or re.search(r"trait\s+([A-Za-z_]\w*)", u.impl)
    return m.group(1) if m else None


def deps_of(u, units: dict, repo) -> set:
    """callees of U among the units: `Type::f(` / free `f(` by name; methods whose name is shared by several
    units (process, flat_map, reduce) only through the explicit `calls` list of U"""
    from .world import _fn_of
    try:
        fn = _fn_of(u, repo)
        body = fn.body
    except Exception:
        return set(u.calls)
    out = set(u.calls)
    params = set(re.findall(r"\b([a-z_]\w*)\s*:", fn.params))
    by_fn: dict = {}
    for v in units.values():
        by_fn.setdefault(v.fn, []).append(v)
    for n, v in units.items():
        if n == u.name:
            continue
        ty = _impl_type(v)
        if ty and re.search(r"\b" + re.escape(ty) + r"(?:::<[^>]*>)?::" + re.escape(v.fn) + r"\b", body):
            out.add(n)
        elif not ty and v.fn not in params and (re.search(r"(?<![.:\w])" + re.escape(v.fn) + r"\s*\(", body)
                                                or re.search(r"\(\s*" + re.escape(v.fn) + r"\s*\)", body)):
            out.add(n)
        elif ty and len(by_fn[v.fn]) == 1 and re.search(r"\." + re.escape(v.fn) + r"\s*\(", body):
            out.add(n)
    return out


# where the callee closure of a property stops: the callee is another property's business
STOP_AT = {
    "C12": {"JpQuery::process", "parse_json_path"},
    "C02": {"Filter::filter_item"},
    "C03": {"Filter::filter_item"},
    "C04": {"TestFunction::process", "process_index", "process_key"},
    "C05": {"Comparison::process", "TestFunction::process", "Vec<Segment>::process", "JpQuery::process"},
    "C10": {"Test::process", "Filter::process", "Comparison::process", "SingularQuery::process", "Literal::process"},
    # what an argument evaluates to is C10 / C05 / C04 / C01; C14 is about the hand-over, the five functions and the reading of their result as a test
    "C14": {"FnArg::process", "Filter::process", "Comparison::process", "Vec<Segment>::process", "JpQuery::process", "SingularQuery::process", "Literal::process", "length", "count", "value", "regex"},
}


def units_for(prop: str, units: dict, repo=None) -> list[str]:
    """units that serve the property, closed under callees (up to STOP_AT)"""
    stop = STOP_AT.get(prop, set())
    todo = [n for n, u in units.items() if prop in u.serves or (prop == "C15" and "C01" in u.serves)]
    seen = set(todo)
    while todo and repo is not None:
        n = todo.pop()
        if units[n].status != "proved":
            continue
        for d in deps_of(units[n], units, repo):
            if d not in seen and d not in stop:
                seen.add(d)
                todo.append(d)
    return [n for n, u in sorted(units.items(), key=lambda kv: (kv[1].order, kv[0])) if n in seen and u.status == "proved"]


def negate_clause(clause: str):
    def mutate(text: str) -> str:
        out, hit = [], 0
        for line in text.split("\n"):
            if f"/*@{clause}*/" in line:
                m = re.match(r"^(\s*)(.*), (/\*@.*\*/)\s*$", line)
                if m:
                    line = f"{m.group(1)}!({m.group(2)}), {m.group(3)}"
                    hit += 1
            out.append(line)
        if hit != 1:
            raise RuntimeError(f"canary: clause {clause} not found")
        return "\n".join(out)
    return mutate


def canaries(prop: str, tier: str, units: dict, unames: list[str]) -> list:
    """vacuity guard: a world whose designated postcondition is negated must FAIL.  If the requires were
    contradictory, or the function body unreachable, the negated clause would verify too."""
    res = []
    # the units whose contracts carry the property come first (the quick tier negates the first two)
    first = [n for n in PROPS.get(prop, {}).get("canary_units", []) if n in unames]
    for n in first + [n for n in unames if n not in first]:
        u = units[n]
        posts = [f"{n}.post.{c}" for c, _ in u.ensures]
        if not posts or u.trait_method:
            continue
        picks = posts if tier == "thorough" else posts[:1]
        for c in picks:
            res.append((n, {"id": "neg_" + re.sub(r"\W+", "_", c), "mutate": negate_clause(c)}))
        if tier != "thorough" and len(res) >= 2:
            break
    return res


GLOBAL_STATE = [
    (r"\bstatic\s+(mut\s+)?[A-Z_][A-Z0-9_]*\s*:", "static item"), (r"\bthread_local\s*!", "thread_local!"), (r"\blazy_static\s*!", "lazy_static!"),
    (r"\b(OnceCell|OnceLock|LazyLock|LazyCell|Lazy)\b", "once/lazy cell"), (r"\b(RefCell|Cell|UnsafeCell)\s*(<|::)", "interior mutability"),
    (r"\b(Mutex|RwLock|Condvar)\b", "lock"), (r"\bAtomic[A-Z]\w*\b", "atomic"), (r"\bunsafe\b", "unsafe"),
    (r"\b(SystemTime|Instant)\b", "clock"), (r"\bstd\s*::\s*env\b|\benv\s*::\s*var\b", "environment"), (r"\brand\s*::|\bthread_rng\b|\bRandomState\b", "randomness"),
]


def scan_global_state(run):
    """side condition of the C12 argument: the non-test code of the crate holds no state that outlives a call"""
    import glob, os
    from .rust_text import strip_comments
    hits, files = [], 0
    for path in sorted(glob.glob(os.path.join(run.repo.root, "src", "**", "*.rs"), recursive=True)):
        src = strip_comments(open(path).read())
        cut = src.find("#[cfg(test)]")
        code = src if cut < 0 else src[:cut]
        # string and char literals say nothing about state (an error message may well contain the word "static")
        code = re.sub(r'"(?:\\.|[^"\\])*"', lambda m: '"' + " " * (len(m.group(0)) - 2) + '"' if "\n" not in m.group(0) else m.group(0), code)
        files += 1
        for rx, what in GLOBAL_STATE:
            for m in re.finditer(rx, code):
                hits.append(f"{os.path.relpath(path, run.repo.root)}:{code.count(chr(10), 0, m.start()) + 1}: {what} `{m.group(0).strip()}`")
    run.obligations += 1
    run.unit_reports.append({"unit": "crate (src/**/*.rs, non-test code)", "backend": "scan", "status": "proved" if not hits else "undecided",
                             "obligations": 1, "discharged": 0 if hits else 1, "files": files, "patterns": [w for _, w in GLOBAL_STATE], "hits": hits[:20]})
    if hits:
        run.undecided.append("purity.no_global_state: the crate now holds state that outlives a call, so `result == F(arguments)` on the units that touch it "
                             "no longer implies history independence; not a violation by itself: " + "; ".join(hits[:5]))
    else:
        run.discharged += 1
        run.samples.append({"obligation": "purity.no_global_state", "unit": "crate", "backend": "scan", "result": "discharged"})


def execute(run):
    unames = units_for(run.prop, run.units, run.repo)
    run.run_verus_units(unames)
    from . import kani, native
    if run.prop == "C12":
        scan_global_state(run)
    kani.run_for(run)
    native.run_for(run)
    run.resolve_standins()
