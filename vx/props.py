"""Per-property configuration: which units decide it, by which back end, and how it is explained."""
from __future__ import annotations
import re

COMMON_ASSUME = [
    "usize is 64 bits; array length < 2^62 (Queryable::as_array contract)",
    "AST integers are in the I-JSON range (parser call sites of validate_range are pest code; validate_range itself is proved)",
    "implementors of Queryable are faithful (accessor contracts in contracts/queryable_trait.rs)",
    "extraction rules E1-E8 preserve meaning (generated worlds are re-type-checked by rustc; each application is logged)",
]
PROPS = {
    "C01": {
        "level": "other",
        "explanation": "Mixed. PROVED (Verus, unbounded, modular): every function from js_path / js_path_process down to the leaf "
                       "selectors meets a contract stated with the RFC 9535 spec functions (contracts/spec_*.rs); js_path_process (and the trait entry "
                       "points of src/lib.rs) return, for EVERY well-formed query, exactly the RFC nodes with their multiplicities "
                       "(ms(result) == ms(rfc_query): post.nodes; permutation lemmas in contracts/spec_multiset.rs) and, when no multi-selector segment "
                       "receives several input nodes, exactly the RFC sequence (post.nodelist). process_descendant and process_selectors are proved units. "
                       "ASSUMED in those proofs and BOUNDED-checked on the real functions: "
                       "Pointer::key/idx text, normalize_json_key + Queryable::get, the iterator-shape helper contracts. "
                       "BOUNDED (native): js_path_process vs the executable rfc_query on all (AST, document) pairs inside the stated bound, "
                       "location by pointer identity.",
        "assumptions": COMMON_ASSUME + ["the ORDER of a multi-selector segment that receives several input nodes is the known finding KF-C02-union-order; the multiset claim covers it"],
    },
    "C02": {
        "level": "other",
        "explanation": "Mixed. PROVED (Verus): Data::reduce keeps the left operand first and removes nothing; Data::flat_map / State::flat_map "
                       "concatenate per input node in input order; slice index sequence (ascending/descending); wildcard and filter child order; "
                       "segment fold; `..` pre-order (process_descendant proved; expanding to containers only is proved RFC-exact); process_selectors: its exact "
                       "(by-selector) order is proved, and proved to BE the RFC order for at most one input node — the rest is the open known finding. "
                       "All specs are sequences, so every C01 obligation is an ordering obligation. BOUNDED: end-to-end order and multiplicity.",
        "assumptions": COMMON_ASSUME,
    },
    "C03": {
        "level": "other",
        "explanation": "Mixed. PROVED (Verus): which step is appended — the normalised non-negative in-range index with the element it denotes "
                       "(process_index, process_slice), the real index / member name of each child (wildcard, filter), `$` for the root, "
                       "projection of (node, path) to the caller. BOUNDED (native): the TEXT of a step (Pointer::key / Pointer::idx are format! code), "
                       "injectivity, and re-querying a reported path.",
        "assumptions": COMMON_ASSUME,
    },
    "C04": {
        "level": "proof",
        "explanation": "Kani (CBMC) proves the real eq / lt on all scalar operands: loop-free harnesses over ALL i64 and ALL finite f64, every "
                       "Value/Ref/Nothing operand shape, against an exact oracle (f64 bit decomposition compared in i128). Verus proves the operator "
                       "dispatch of Comparison::process (!=, <=, >, >= derived from == and <), Comparison::vals, Comparison::try_new (token -> variant), "
                       "literal and singular-query operand evaluation.",
        "assumptions": COMMON_ASSUME + ["strings: str ordering of std is Unicode scalar order (UTF-8 byte order); two-element string set in the Kani harness",
                                        "arrays/objects: structural equality is delegated to T: PartialEq (bounded check only; known finding for numbers nested in containers)"],
    },
    "C05": {
        "level": "other",
        "explanation": "Mixed. PROVED (Verus): Filter::select_children keeps exactly the children with filter_truth, in order, with idx/key paths; "
                       "process_elem (or = exists, and = forall), filter_item, FilterAtom::process (negation; a query test is true iff its nodelist is "
                       "non-empty, whatever the value), invert_bool, Test::process (`$` re-roots), the filter selector applied to `@`. filter_truth is a "
                       "mutually recursive spec function over the real AST. BOUNDED: nested filters and all valuations of small formulas end to end. "
                       "Precedence of && over || is in the pest grammar: not covered.",
        "assumptions": COMMON_ASSUME + ["representation invariant: a pointer with an empty path denotes `@` (stated as is_cur in every filter-mode contract)"],
    },
    "C08": {
        "level": "proof",
        "verus_policy": "safety",
        "own_clauses": ["js_path_process.post.ok", "validate_range.post.ok", "validate_range.post.err", "js_path.post.parse_err"],
        "explanation": "Scoped to the arithmetic core and the Ok/Err mapping. Verus proves, for all lengths < 2^62 and all I-JSON integers: no overflow, "
                       "no out-of-bounds access, termination of both slice loops (decreases), and that js_path_process returns Ok for every well-formed "
                       "query (the state never becomes a Value at top level). validate_range is proved to accept exactly the I-JSON range. Kani probes "
                       "process_index without precondition (shows the I-JSON precondition is necessary: i64::MIN). Parser panics, stack depth and "
                       "parse time are outside both verifiers: bounded deep-nesting probes (one process each, 8 MiB stack, 20 s CPU limit; nesting depth "
                       "<= 1024 must hold) stand in, and the two genuine defects they reproduce on the unchanged tree are recorded as known findings.",
        "assumptions": COMMON_ASSUME + ["exec termination of the recursive evaluator is not claimed (exec_allows_no_decreases_clause); only the slice loops",
                                         "stack depth is not modelled by Verus or Kani: the no-stack-exhaustion clause is bounded only (deep probes), with two open known findings"],
    },
    "C10": {
        "level": "other",
        "explanation": "Mixed. PROVED (Verus): count (number of nodes, 0 for none), value (the single node or nothing), length (dispatch by kind; "
                       "chars().count() assumed = number of scalar values), TestFunction::apply routing, FnArg::process, the typing tables "
                       "is_res_bool / is_comparable. BOUNDED: regex / prepare_regex (whole-string anchoring of match, search = find, non-strings and "
                       "invalid patterns -> false); the regex engine is trusted.",
        "assumptions": COMMON_ASSUME + ["regex crate is trusted", "functions are well-typed per RFC 9535 2.4.3 (wf_fn)"],
    },
    "C11": {
        "level": "proof",
        "explanation": "Verus proves the verbatim bodies of process_index and process_slice (incl. its closures and both "
                       "loops) against the RFC 9535 2.3.3/2.3.4.2.2 spec functions for every length < 2^62 and every "
                       "I-JSON start/end/step/index; no unrolling, no bound.",
        "assumptions": COMMON_ASSUME,
    },
    "C15": {
        "level": "other",
        "verus_policy": "undecided",
        "explanation": "Mixed. Parametricity: every Verus proof is over an arbitrary T: Queryable and phrased only through the trait's spec accessors, so for the "
                       "proved units the result is a function of the trait view for ALL implementations. The comparison kernel is additionally proved by Kani "
                       "at a second faithful view (integers visible through as_i64 only). BOUNDED: end-to-end agreement of a non-serde_json instance with serde_json::Value.",
        "assumptions": COMMON_ASSUME + ["eq_json falls back to T: PartialEq for non-numbers (outside the accessor view; bounded only)"],
    },
}


def _impl_type(u) -> str | None:
    if not u.impl:
        return None
    m = re.search(r"impl(?:<[^>]*>)?\s+(?:[\w:]+(?:<[^>]*>)?\s+for\s+)?([A-Za-z_]\w*)", u.impl) or re.search(r"trait\s+([A-Za-z_]\w*)", u.impl)
    return m.group(1) if m else None


def deps_of(u, units: dict, repo) -> set:
    """callees of U among the units: `Type::f(` / free `f(` by name; methods whose name is shared by several
    units (process, flat_map, reduce) only through the explicit `calls` list of U"""
    from .world import _fn_of
    try:
        fn = _fn_of(u, repo)
        body = fn.body
    except Exception:
        return set(u.calls)
    out = set(u.calls)
    params = set(re.findall(r"\b([a-z_]\w*)\s*:", fn.params))
    by_fn: dict = {}
    for v in units.values():
        by_fn.setdefault(v.fn, []).append(v)
    for n, v in units.items():
        if n == u.name:
            continue
        ty = _impl_type(v)
        if ty and re.search(r"\b" + re.escape(ty) + r"(?:::<[^>]*>)?::" + re.escape(v.fn) + r"\b", body):
            out.add(n)
        elif not ty and v.fn not in params and (re.search(r"(?<![.:\w])" + re.escape(v.fn) + r"\s*\(", body)
                                                or re.search(r"\(\s*" + re.escape(v.fn) + r"\s*\)", body)):
            out.add(n)
        elif ty and len(by_fn[v.fn]) == 1 and re.search(r"\." + re.escape(v.fn) + r"\s*\(", body):
            out.add(n)
    return out


# where the callee closure of a property stops: the callee is another property's business
STOP_AT = {
    "C02": {"Filter::filter_item"},
    "C03": {"Filter::filter_item"},
    "C04": {"TestFunction::process", "process_index", "process_key"},
    "C05": {"Comparison::process", "TestFunction::process", "Vec<Segment>::process", "JpQuery::process"},
    "C10": {"Test::process", "Filter::process", "Comparison::process", "SingularQuery::process", "Literal::process"},
}


def units_for(prop: str, units: dict, repo=None) -> list[str]:
    """units that serve the property, closed under callees (up to STOP_AT)"""
    stop = STOP_AT.get(prop, set())
    todo = [n for n, u in units.items() if prop in u.serves or (prop == "C15" and "C01" in u.serves)]
    seen = set(todo)
    while todo and repo is not None:
        n = todo.pop()
        if units[n].status != "proved":
            continue
        for d in deps_of(units[n], units, repo):
            if d not in seen and d not in stop:
                seen.add(d)
                todo.append(d)
    return [n for n, u in sorted(units.items(), key=lambda kv: (kv[1].order, kv[0])) if n in seen and u.status == "proved"]


def negate_clause(clause: str):
    def mutate(text: str) -> str:
        out, hit = [], 0
        for line in text.split("\n"):
            if f"/*@{clause}*/" in line:
                m = re.match(r"^(\s*)(.*), (/\*@.*\*/)\s*$", line)
                if m:
                    line = f"{m.group(1)}!({m.group(2)}), {m.group(3)}"
                    hit += 1
            out.append(line)
        if hit != 1:
            raise RuntimeError(f"canary: clause {clause} not found")
        return "\n".join(out)
    return mutate


def canaries(prop: str, tier: str, units: dict, unames: list[str]) -> list:
    """vacuity guard: a world whose designated postcondition is negated must FAIL.  If the requires were
    contradictory, or the function body unreachable, the negated clause would verify too."""
    res = []
    for n in unames:
        u = units[n]
        posts = [f"{n}.post.{c}" for c, _ in u.ensures]
        if not posts or u.trait_method:
            continue
        picks = posts if tier == "thorough" else posts[:1]
        for c in picks:
            res.append((n, {"id": "neg_" + re.sub(r"\W+", "_", c), "mutate": negate_clause(c)}))
        if tier != "thorough" and len(res) >= 2:
            break
    return res


def execute(run):
    unames = units_for(run.prop, run.units, run.repo)
    run.run_verus_units(unames)
    from . import kani, native
    kani.run_for(run)
    native.run_for(run)
