"""Per-property configuration: which units decide it, by which back end, and how it is explained."""
from __future__ import annotations
import re

PROPS = {
    "C11": {
        "level": "proof",
        "explanation": "Verus proves the verbatim bodies of process_index and process_slice (incl. its closures and both "
                       "loops) against the RFC 9535 2.3.3/2.3.4.2.2 spec functions for every length < 2^62 and every "
                       "I-JSON start/end/step/index; no unrolling, no bound.",
        "assumptions": [
            "array length < 2^62 (Queryable::as_array contract; a Vec of non-zero-sized elements cannot be longer)",
            "usize is 64 bits",
            "slice bounds/steps and indices are in the I-JSON range (parser's validate_range call sites; pest code is not verified)",
        ],
    },
}


def deps_of(u, units: dict, repo) -> set:
    """over-approximate call graph: V is a dependency of U if V's fn name is called in U's body"""
    from .world import _fn_of
    try:
        body = _fn_of(u, repo).body
    except Exception:
        return set()
    out = set()
    for n, v in units.items():
        if n != u.name and re.search(r"\b" + re.escape(v.fn) + r"\s*(\(|\)|,)", body):
            out.add(n)
    return out


def units_for(prop: str, units: dict, repo=None) -> list[str]:
    """units that serve the property, closed under (over-approximated) callees"""
    todo = [n for n, u in units.items() if prop in u.serves]
    seen = set(todo)
    while todo and repo is not None:
        n = todo.pop()
        if units[n].status != "proved":
            continue
        for d in deps_of(units[n], units, repo):
            if d not in seen:
                seen.add(d)
                todo.append(d)
    return [n for n, u in sorted(units.items(), key=lambda kv: (kv[1].order, kv[0])) if n in seen and u.status == "proved"]


def negate_clause(clause: str):
    def mutate(text: str) -> str:
        out, hit = [], 0
        for line in text.split("\n"):
            if f"/*@{clause}*/" in line:
                m = re.match(r"^(\s*)(.*), (/\*@.*\*/)\s*$", line)
                if m:
                    line = f"{m.group(1)}!({m.group(2)}), {m.group(3)}"
                    hit += 1
            out.append(line)
        if hit != 1:
            raise RuntimeError(f"canary: clause {clause} not found")
        return "\n".join(out)
    return mutate


def canaries(prop: str, tier: str, units: dict, unames: list[str]) -> list:
    """vacuity guard: a world whose designated postcondition is negated must FAIL.  If the requires were
    contradictory, or the function body unreachable, the negated clause would verify too."""
    res = []
    for n in unames:
        u = units[n]
        posts = [f"{n}.post.{c}" for c, _ in u.ensures]
        if not posts or u.trait_method:
            continue
        picks = posts if tier == "thorough" else posts[:1]
        for c in picks:
            res.append((n, {"id": "neg_" + re.sub(r"\W+", "_", c), "mutate": negate_clause(c)}))
        if tier != "thorough" and len(res) >= 2:
            break
    return res


def execute(run):
    unames = units_for(run.prop, run.units, run.repo)
    run.run_verus_units(unames)
    from . import kani, native
    kani.run_for(run)
    native.run_for(run)
