"""Run Verus on generated worlds and classify the outcome per named clause."""
from __future__ import annotations
import json, os, re, subprocess, time
from dataclasses import dataclass, field

VERUS = os.environ.get("VERUS_BIN", "verus")

# messages that mean "the verifier refuted / could not prove a proof obligation"
OBLIGATION_MSG = (
    "postcondition not satisfied", "unable to prove post-condition of closure", "precondition not satisfied",
    "invariant not satisfied", "assertion failed", "possible arithmetic underflow/overflow",
    "possible division by zero", "decreases not satisfied", "could not prove termination",
    "unable to prove assertion", "unable to prove pre-condition of closure", "possible bit shift underflow/overflow",
    "loop invariant", "recommendation not met", "failed to prove", "unreachable",
)
RESOURCE_MSG = ("resource limit", "rlimit", "timed out", "out of memory")


@dataclass
class Failure:
    kind: str            # message text
    clause: str | None   # named clause ("unit.post.name") or None for implicit safety obligations
    line: int
    at_line: int | None = None     # where in the body it failed (call site / return site)
    detail: str = ""
    source_assert: bool = False   # the failing obligation is an assert!-family macro written in the source of the tree (not a contract clause)


@dataclass
class VerusResult:
    unit: str
    status: str = "undecided"      # proved | failed | undecided
    reason: str = ""
    failures: list = field(default_factory=list)
    verified: int = 0
    errors: int = 0
    fn_success: bool | None = None
    rlimit: int = 0
    smt_ms: float = 0.0
    wall_s: float = 0.0
    world: str = ""
    raw_err: str = ""
    cmd: str = ""
    err_line: int | None = None    # line of the first compile error in the generated world (to tell whose text does not compile)


def run_verus(world_path: str, unit: str, fn_names: list[str], cmap: dict, rlimit: int | None = None,
              seed: int | None = None, timeout: int = 600) -> VerusResult:
    res = VerusResult(unit=unit, world=world_path)
    cmd = [VERUS, world_path, "--triggers-mode", "silent", "--output-json", "--time",
           "--multiple-errors", "20", "--error-format=json"]
    if rlimit:
        cmd += ["--rlimit", str(rlimit)]
    if seed is not None:
        cmd += ["--smt-option", f"smt.random_seed={seed}"]
    res.cmd = " ".join(cmd)
    t0 = time.time()
    try:
        p = subprocess.run(cmd, capture_output=True, text=True, timeout=timeout, cwd=os.path.dirname(world_path))
    except subprocess.TimeoutExpired:
        res.reason = f"verus timeout after {timeout}s"
        res.wall_s = time.time() - t0
        return res
    res.wall_s = time.time() - t0
    res.raw_err = p.stderr[-20000:]
    out = None
    try:
        out = json.loads(p.stdout)
    except Exception:
        pass
    diags = []
    for line in p.stderr.splitlines():
        line = line.strip()
        if line.startswith("{"):
            try:
                diags.append(json.loads(line))
            except Exception:
                pass
    errors = [d for d in diags if d.get("level") == "error" and not d.get("message", "").startswith("aborting due to")]
    def first_line(ds):
        for d in ds:
            for sp in d.get("spans", []):
                if sp.get("is_primary"):
                    return sp.get("line_start")
        return None
    if out is None or "verification-results" not in out:
        res.err_line = first_line(errors)
        res.reason = "verus produced no verification results (compile error / unsupported construct): " + \
            "; ".join(d.get("message", "")[:200] for d in errors[:3])
        return res
    vr = out["verification-results"]
    res.verified, res.errors = vr.get("verified", 0), vr.get("errors", 0)
    try:
        for mod in out["times-ms"]["smt"]["smt-run-module-times"]:
            for f in mod["function-breakdown"]:
                last = f["function"].rsplit("::", 1)[-1]
                if f.get("mode:") == "exec" and last in fn_names:
                    res.fn_success = f["success"] if res.fn_success in (None, True) else False
                    res.rlimit += f.get("rlimit", 0)
                    res.smt_ms += f.get("time-micros", 0) / 1000.0
    except Exception:
        pass
    if vr.get("encountered-vir-error"):
        res.err_line = first_line(errors)
        res.reason = "verus rejected the world (unsupported construct): " + "; ".join(d.get("message", "")[:200] for d in errors[:3])
        return res
    resource = False
    world_lines = None
    for d in errors:
        msg = d.get("message", "")
        low = msg.lower()
        if d.get("code"):
            res.reason = "rustc error in generated world: " + msg[:300]
            res.err_line = first_line([d])
            return res
        if any(r in low for r in RESOURCE_MSG):
            resource = True
            continue
        prim = [s for s in d.get("spans", []) if s.get("is_primary")]
        others = [s for s in d.get("spans", []) if not s.get("is_primary")]
        clause, line, at = None, prim[0]["line_start"] if prim else 0, None
        # the span labelled "failed this ..." (else the primary span) tells which clause failed
        spans = d.get("spans", [])
        cand = [s for s in spans if "failed" in (s.get("label") or "")] or prim
        for s in cand:
            for ln in range(s["line_start"], s["line_end"] + 1):
                if ln in cmap and clause is None:
                    clause = cmap[ln]
        for s in spans:
            if s not in cand:
                at = s["line_start"]
        if not any(k in low for k in OBLIGATION_MSG):
            res.reason = "unclassified verus error: " + msg[:300]
            return res
        src_assert = False
        if clause is None and prim:
            # does the failing obligation come from an assert!-family macro written in the source of this tree?  (rustc reports the span inside
            # the macro definition, with the chain of expansions that leads to the call site)
            def macros_of(sp):
                out = []
                e = sp.get("expansion")
                while e:
                    out.append((e.get("macro_decl_name") or "").strip())
                    e = (e.get("span") or {}).get("expansion")
                return out
            fam = {"assert!", "debug_assert!", "assert_eq!", "assert_ne!", "debug_assert_eq!", "debug_assert_ne!"}
            src_assert = all(any(m in fam for m in macros_of(sp)) for sp in prim)
            if not src_assert:
                try:
                    if world_lines is None:
                        world_lines = open(world_path).read().split("\n")
                    src_assert = all(sp.get("file_name") == world_path and re.search(r"\b(debug_)?assert(_eq|_ne)?!\s*\(",
                                     " ".join(world_lines[sp["line_start"] - 1: min(sp["line_end"], sp["line_start"] + 5)])) for sp in prim)
                except Exception:
                    src_assert = False
        res.failures.append(Failure(kind=msg, clause=clause, line=line, at_line=at, source_assert=src_assert,
                                    detail="; ".join(f"{s['line_start']}:{s.get('label')}" for s in d.get("spans", []))))
    if res.failures:
        res.status = "failed"
        return res
    if resource:
        res.reason = "resource limit exceeded"
        return res
    if res.errors:
        res.reason = f"{res.errors} errors without diagnostics"
        return res
    if res.fn_success is not True:
        res.reason = "target function not found in Verus' per-function report (no obligation generated?)"
        return res
    res.status = "proved"
    return res
