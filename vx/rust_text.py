"""Light-weight Rust text utilities for the mechanical extractor.

Nothing here understands Rust semantically.  It tokenises (so that strings, chars,
lifetimes and comments are never mistaken for brackets), matches brackets, finds items by
name, finds closures, and matches *templates* such as

    $X.into_iter().chain($Y).collect()

against the token stream.  Whatever is produced is re-checked by rustc (inside Verus), so a
wrong cut shows up as a compile error (-> unit undecided), never as a silently different
program.
"""
from __future__ import annotations
import re
from dataclasses import dataclass


class AnchorLost(Exception):
    """The source no longer has the shape the extraction rule expects."""


@dataclass
class Tok:
    kind: str   # ident | life | char | str | num | punct | meta
    text: str
    start: int
    end: int


_IDENT = re.compile(r"[A-Za-z_][A-Za-z0-9_]*")
_NUM = re.compile(r"[0-9][0-9A-Za-z_]*(\.[0-9][0-9A-Za-z_]*)?")
_META = re.compile(r"\$[A-Z][A-Za-z0-9_]*")
KEYWORDS = {"if", "else", "match", "return", "in", "for", "while", "loop", "let", "mut",
            "move", "ref", "as", "break", "continue", "fn", "impl", "where", "pub", "use"}


def tokenize(s: str, metas: bool = False) -> list[Tok]:
    toks: list[Tok] = []
    i, n = 0, len(s)
    while i < n:
        c = s[i]
        if c.isspace():
            i += 1
            continue
        if s.startswith("//", i):
            j = s.find("\n", i)
            i = n if j < 0 else j
            continue
        if s.startswith("/*", i):
            depth, j = 1, i + 2
            while j < n and depth:
                if s.startswith("/*", j):
                    depth += 1; j += 2
                elif s.startswith("*/", j):
                    depth -= 1; j += 2
                else:
                    j += 1
            i = j
            continue
        if metas and c == "$":
            m = _META.match(s, i)
            if m:
                toks.append(Tok("meta", m.group(0), i, m.end())); i = m.end(); continue
        if c == '"' or c in "br":
            m = re.match(r'(b?)(r?)(#*)"', s[i:i + 12])
            if m and (c == '"' or not (i > 0 and (s[i-1].isalnum() or s[i-1] == '_'))):
                raw, hashes = m.group(2), m.group(3)
                j = i + len(m.group(0))
                if raw:
                    endm = '"' + hashes
                    k = s.find(endm, j)
                    j = n if k < 0 else k + len(endm)
                else:
                    while j < n and s[j] != '"':
                        j += 2 if s[j] == "\\" else 1
                    j += 1
                toks.append(Tok("str", s[i:j], i, j)); i = j; continue
        if c == "'":
            # char literal or lifetime
            m = re.match(r"'(\\u\{[0-9a-fA-F_]+\}|\\x[0-9a-fA-F]{2}|\\.|[^\\'])'", s[i:])
            if m:
                toks.append(Tok("char", m.group(0), i, i + len(m.group(0)))); i += len(m.group(0)); continue
            m = re.match(r"'[A-Za-z_][A-Za-z0-9_]*", s[i:])
            if m:
                toks.append(Tok("life", m.group(0), i, i + len(m.group(0)))); i += len(m.group(0)); continue
        m = _IDENT.match(s, i)
        if m:
            toks.append(Tok("ident", m.group(0), i, m.end())); i = m.end(); continue
        m = _NUM.match(s, i)
        if m:
            # do not swallow `0..3` or `x.0.1`: keep a fractional part only if followed by a digit
            toks.append(Tok("num", m.group(0), i, m.end())); i = m.end(); continue
        toks.append(Tok("punct", c, i, i + 1)); i += 1
    return toks


OPEN = {"(": ")", "[": "]", "{": "}"}
CLOSE = {v: k for k, v in OPEN.items()}


def close_of(toks: list[Tok], i: int) -> int:
    """index of the token closing the bracket opened at token i"""
    assert toks[i].text in OPEN, toks[i]
    depth = 0
    for j in range(i, len(toks)):
        t = toks[j]
        if t.kind == "punct":
            if t.text in OPEN:
                depth += 1
            elif t.text in CLOSE:
                depth -= 1
                if depth == 0:
                    if CLOSE[t.text] != toks[i].text:
                        raise AnchorLost(f"bracket mismatch at {t.start}")
                    return j
    raise AnchorLost("unbalanced bracket")


def open_of(toks: list[Tok], i: int) -> int:
    assert toks[i].text in CLOSE, toks[i]
    depth = 0
    for j in range(i, -1, -1):
        t = toks[j]
        if t.kind == "punct":
            if t.text in CLOSE:
                depth += 1
            elif t.text in OPEN:
                depth -= 1
                if depth == 0:
                    return j
    raise AnchorLost("unbalanced bracket")


def strip_comments(s: str) -> str:
    """remove comments, keep everything else byte for byte (newlines kept)"""
    out, last = [], 0
    i, n = 0, len(s)
    toks = tokenize(s)
    # rebuild by walking gaps between tokens: gaps contain only whitespace and comments
    pos = 0
    res = []
    for t in toks:
        gap = s[pos:t.start]
        res.append(_strip_gap(gap))
        res.append(s[t.start:t.end])
        pos = t.end
    res.append(_strip_gap(s[pos:]))
    return "".join(res)


def _strip_gap(gap: str) -> str:
    gap = re.sub(r"/\*.*?\*/", " ", gap, flags=re.S)
    gap = re.sub(r"//[^\n]*", "", gap)
    # collapse lines that became blank
    gap = re.sub(r"\n[ \t]*(\n[ \t]*)+", lambda m: "\n" + m.group(0).rsplit("\n", 1)[1], gap)
    return gap


# ----------------------------------------------------------------------------------------
# items
# ----------------------------------------------------------------------------------------

def _norm(s: str) -> str:
    return re.sub(r"\s+", "", s)


def find_block_item(src: str, header_re: str) -> tuple[int, int, int]:
    """find `HEADER ... { ... }` where HEADER matches header_re (regex on text);
    returns (start, body_open, end_exclusive)."""
    m = re.search(header_re, src)
    if not m:
        raise AnchorLost(f"item not found: {header_re}")
    toks = tokenize(src[m.start():])
    for k, t in enumerate(toks):
        if t.text == "{":
            e = close_of(toks, k)
            return m.start(), m.start() + t.start, m.start() + toks[e].end
        if t.text == ";":
            break
    raise AnchorLost(f"no body for {header_re}")


def find_impl(src: str, header: str) -> tuple[int, int]:
    """span (inside braces) of `impl... HEADER {`; header compared whitespace-insensitively,
    e.g. "impl Query for Selector" or "impl<'a, T: Queryable> Data<'a, T>"."""
    want = _norm(header)
    for m in re.finditer(r"(?m)^\s*(?:impl|pub\s+trait|trait)\b[^{;]*\{", src):
        got = _norm(m.group(0)[:-1])
        if got == want:
            toks = tokenize(src[m.end() - 1:])
            e = close_of(toks, 0)
            return m.end(), m.end() - 1 + toks[e].start
    raise AnchorLost(f"impl not found: {header}")


@dataclass
class FnItem:
    name: str
    vis: str          # "pub", "pub(crate)", ""
    generics: str     # text between name and '(' (e.g. "<'a, T: Queryable>")
    params: str       # text inside the parameter parentheses
    ret: str          # return type text ("" if none)
    where: str        # where clause text without the keyword ("" if none)
    body: str         # text inside the body braces
    span: tuple[int, int]
    file: str = ""


def find_fn(src: str, name: str, impl_header: str | None = None, base: int = 0) -> FnItem:
    lo, hi = 0, len(src)
    if impl_header:
        lo, hi = find_impl(src, impl_header)
    region = src[lo:hi]
    cands = [m for m in re.finditer(r"(?m)^[ \t]*((?:pub(?:\([a-z]+\))?\s+)?)fn\s+" + re.escape(name) + r"\b", region)]
    # keep only candidates at brace depth 0 of the region (not nested fns)
    good = []
    for m in cands:
        depth = 0
        for t in tokenize(region[:m.start()]):
            if t.text == "{":
                depth += 1
            elif t.text == "}":
                depth -= 1
        if depth == 0 or (impl_header is None and depth == 0):
            good.append(m)
    if len(good) != 1:
        raise AnchorLost(f"fn {name} in {impl_header or 'module'}: {len(good)} candidates")
    m = good[0]
    toks = tokenize(region[m.start():])
    # name token
    k = next(i for i, t in enumerate(toks) if t.kind == "ident" and t.text == name and toks[i - 1].text == "fn")
    # generics
    j = k + 1
    gen = ""
    if toks[j].text == "<":
        depth, g0 = 0, j
        while True:
            if toks[j].text == "<":
                depth += 1
            elif toks[j].text == ">" and toks[j - 1].text != "-":
                depth -= 1
                if depth == 0:
                    break
            j += 1
        gen = region[m.start() + toks[g0].start: m.start() + toks[j].end]
        j += 1
    if toks[j].text != "(":
        raise AnchorLost(f"fn {name}: no parameter list")
    pe = close_of(toks, j)
    params = region[m.start() + toks[j].end: m.start() + toks[pe].start]
    # return type / where / body
    q = pe + 1
    b = q
    while toks[b].text != "{":
        if toks[b].text in OPEN:
            b = close_of(toks, b)
        b += 1
    head = region[m.start() + toks[pe].end: m.start() + toks[b].start]
    ret, where = "", ""
    hm = re.match(r"\s*(?:->\s*(?P<ret>.*?))?\s*(?:\bwhere\b(?P<where>.*))?$", head, flags=re.S)
    if hm:
        ret = (hm.group("ret") or "").strip()
        where = (hm.group("where") or "").strip().rstrip(",")
    be = close_of(toks, b)
    body = region[m.start() + toks[b].end: m.start() + toks[be].start]
    vis = m.group(1).strip()
    return FnItem(name, vis, gen, params, ret, where, body,
                  (base + lo + m.start(), base + lo + m.start() + toks[be].end))


def split_top(s: str, sep: str = ",") -> list[str]:
    """split at top-level separators (depth 0 w.r.t. ()[]{}<>), `->` and `=>` do not close"""
    toks = tokenize(s)
    parts, depth, last = [], 0, 0
    for i, t in enumerate(toks):
        if t.kind != "punct":
            continue
        if t.text in "([{":
            depth += 1
        elif t.text in ")]}":
            depth -= 1
        elif t.text == "<":
            depth += 1
        elif t.text == ">" and i > 0 and not (toks[i - 1].text in "-=" and toks[i - 1].end == t.start):
            depth -= 1
        elif t.text == sep and depth == 0:
            parts.append(s[last:t.start]); last = t.end
    tail = s[last:]
    if tail.strip():
        parts.append(tail)
    return [p.strip() for p in parts]


def split_param(p: str) -> tuple[str, str]:
    """`PAT: TYPE` -> (PAT, TYPE); the ':' is the first top-level single colon"""
    toks = tokenize(p)
    depth = 0
    for i, t in enumerate(toks):
        if t.kind != "punct":
            continue
        if t.text in "([{<":
            depth += 1
        elif t.text in ")]}":
            depth -= 1
        elif t.text == ">" and not (toks[i - 1].text in "-=" and toks[i - 1].end == t.start):
            depth -= 1
        elif t.text == ":" and depth == 0:
            nxt = toks[i + 1] if i + 1 < len(toks) else None
            prv = toks[i - 1] if i else None
            if (nxt and nxt.text == ":" and nxt.start == t.end) or (prv and prv.text == ":" and prv.end == t.start):
                continue
            return p[:t.start].strip(), p[t.end:].strip()
    return p.strip(), ""


_SIMPLE_PAT = re.compile(r"^(mut\s+)?[a-z_][A-Za-z0-9_]*$")


def is_simple_pat(p: str) -> bool:
    return bool(_SIMPLE_PAT.match(p.strip())) or _norm(p) in ("self", "&self", "&mutself", "mutself")


# ----------------------------------------------------------------------------------------
# closures
# ----------------------------------------------------------------------------------------

@dataclass
class Closure:
    start: int          # text offset of the first '|'
    params: list[tuple[str, str]]   # (pattern, type or "")
    ret: str
    body: str           # body expression text (without outer braces if it was a block)
    was_block: bool
    end: int            # text offset just past the closure
    is_move: bool = False


def find_closures(s: str) -> list[Closure]:
    """all closures in s, in source order (outer before inner)"""
    toks = tokenize(s)
    res = []
    i = 0
    while i < len(toks):
        t = toks[i]
        if t.kind == "punct" and t.text == "|":
            prev = toks[i - 1] if i else None
            starts = prev is None or (prev.kind == "punct" and prev.text in "(,={;[") or \
                (prev.kind == "punct" and prev.text == ">" and i >= 2 and toks[i - 2].text == "=" and toks[i - 2].end == prev.start) or \
                (prev.kind == "ident" and prev.text in ("move", "return", "else"))
            if not starts:
                i += 1
                continue
            # parameters
            j = i + 1
            if toks[j].text == "|" :
                pend = j
            else:
                depth = 0
                while True:
                    x = toks[j]
                    if x.kind == "punct":
                        if x.text in "([{<":
                            depth += 1
                        elif x.text in ")]}":
                            depth -= 1
                        elif x.text == ">" and not (toks[j-1].text in "-=" and toks[j-1].end == x.start):
                            depth -= 1
                        elif x.text == "|" and depth == 0:
                            break
                    j += 1
                pend = j
            ptxt = s[toks[i].end:toks[pend].start]
            params = [split_param(p) for p in split_top(ptxt)] if ptxt.strip() else []
            k = pend + 1
            ret = ""
            if toks[k].text == "-" and toks[k + 1].text == ">":
                # explicit return type: up to the body '{'
                b = k + 2
                while toks[b].text != "{":
                    if toks[b].text in OPEN:
                        b = close_of(toks, b)
                    b += 1
                ret = s[toks[k + 1].end:toks[b].start].strip()
                k = b
            if toks[k].text == "{":
                e = close_of(toks, k)
                body = s[toks[k].end:toks[e].start]
                end = toks[e].end
                was_block = True
                # a block followed by a postfix (`{..}.foo()`) does not occur in this code base
            else:
                depth, e = 0, k
                while e < len(toks):
                    x = toks[e]
                    if x.kind == "punct":
                        if x.text in OPEN:
                            e = close_of(toks, e)
                        elif x.text in CLOSE or x.text in ",;":
                            break
                    e += 1
                body = s[toks[k].start:toks[e - 1].end]
                end = toks[e - 1].end
                was_block = False
            is_move = bool(i and toks[i - 1].text == "move")
            res.append(Closure(toks[i].start, params, ret, body, was_block, end, is_move))
            i = pend + 1
            continue
        i += 1
    return res


# ----------------------------------------------------------------------------------------
# templates
# ----------------------------------------------------------------------------------------

def _recv_start(toks: list[Tok], end: int) -> int:
    """start token index of the postfix-expression whose last token is toks[end]"""
    i = end
    while True:
        t = toks[i]
        if t.kind == "punct" and t.text in ")]":
            i = open_of(toks, i)
            prev = toks[i - 1] if i else None
            if prev and prev.kind == "ident" and prev.text not in KEYWORDS:
                i -= 1
            elif prev and prev.text == "!" and i >= 2 and toks[i - 2].kind == "ident":
                i -= 2
            elif prev and prev.text == ">" and i >= 2 and toks[i - 2].text in "=-" and toks[i - 2].end == prev.start:
                return i   # `=> (..)` / `-> (..)`: a parenthesised expression
            elif prev and prev.text == ">" :
                # turbofish call  name::<..>(..)
                depth, j = 0, i - 1
                while j >= 0:
                    if toks[j].text == ">":
                        depth += 1
                    elif toks[j].text == "<":
                        depth -= 1
                        if depth == 0:
                            break
                    j -= 1
                if j >= 3 and toks[j - 1].text == ":" and toks[j - 2].text == ":" and toks[j - 3].kind == "ident":
                    i = j - 3
                else:
                    return i
            else:
                return i
        elif t.kind == "punct" and t.text == "?":
            i -= 1
            continue
        elif t.kind not in ("ident", "num", "str", "char"):
            raise AnchorLost(f"cannot find receiver ending at offset {t.start}")
        # toks[i] is the head identifier of a path segment / call
        while i >= 3 and toks[i - 1].text == ":" and toks[i - 2].text == ":" and toks[i - 3].kind == "ident":
            i -= 3
        if i >= 2 and toks[i - 1].text == "." and not (toks[i - 2].text == "."):
            i -= 2
            continue
        return i


def template_matches(s: str, template: str):
    """yield (start, end, captures) for every match of the template in s.
    Template grammar: literal tokens, `$X` (only first position: postfix receiver),
    `$Y` elsewhere: balanced token run up to the next template token at depth 0."""
    tt = tokenize(template, metas=True)
    toks = tokenize(s)
    assert tt[0].kind == "meta", "template must start with a receiver metavariable"
    lit = tt[1:]
    out = []
    for j in range(1, len(toks)):
        caps = {}
        a, b = j, 0
        ok = True
        while b < len(lit):
            x = lit[b]
            if x.kind == "meta":
                stop = lit[b + 1]
                depth, e = 0, a
                while e < len(toks):
                    y = toks[e]
                    if depth == 0 and y.text == stop.text and y.kind == stop.kind:
                        break
                    if y.kind == "punct" and y.text in OPEN:
                        e = close_of(toks, e)
                    elif y.kind == "punct" and y.text in CLOSE:
                        ok = False
                        break
                    e += 1
                if not ok or e >= len(toks) or e == a:
                    ok = False
                    break
                caps[x.text] = s[toks[a].start:toks[e - 1].end]
                a = e
                b += 1
                continue
            if a >= len(toks) or toks[a].text != x.text or toks[a].kind != x.kind:
                ok = False
                break
            a += 1
            b += 1
        if not ok:
            continue
        try:
            r0 = _recv_start(toks, j - 1)
        except AnchorLost:
            continue
        caps[tt[0].text] = s[toks[r0].start:toks[j - 1].end]
        out.append((toks[r0].start, toks[a - 1].end, caps))
    return out


def apply_template(s: str, template: str, replacement: str) -> tuple[str, int]:
    """rewrite every match (innermost/rightmost first, re-scanning after each)"""
    n = 0
    while True:
        ms = template_matches(s, template)
        if not ms:
            return s, n
        st, en, caps = ms[-1]
        rep = replacement
        for k, v in caps.items():
            rep = rep.replace(k, v)
        s = s[:st] + rep + s[en:]
        n += 1
        if n > 50:
            raise AnchorLost("template rewriting does not terminate")
