"""python3 -m vx.names: snapshot of the parameter names (functions and annotated closures) of every unit on the current /repo,
written to contracts/param_names.json.  The contracts are written against these names; rule E1b re-binds renamed parameters."""
import json, os, sys
from .world import load_units, Repo, _fn_of, CONTRACTS, rewrite_e3
from .rust_text import split_top, split_param, find_closures, is_simple_pat


def main():
    repo = Repo(os.environ.get("VERIF_REPO", "/repo"))
    out = {}
    for name, u in load_units().items():
        try:
            fn = _fn_of(u, repo)
        except Exception as e:
            print("skip", name, e, file=sys.stderr)
            continue
        ps = [" ".join(split_param(p)[0].split()) for p in split_top(fn.params)]
        ent = {"params": ps}
        if u.closures and u.status == "proved":
            # closure ordinals are those of the body after the shape / text rewrites (as in render_real)
            from .world import SHAPES
            from .rust_text import apply_template
            import re
            from .rust_text import tokenize
            body = rewrite_e3(fn.body, name, [])
            for entry in u.shapes:
                tpl, rep = SHAPES[entry[0]]
                if len(entry) > 2:
                    rep = entry[2]
                body, _ = apply_template(body, tpl, rep)
            for label, frm, to, count in u.text_rewrites:
                pat = r"\s*".join(re.escape(t.text) for t in tokenize(frm))
                body, _ = re.subn(pat, lambda m: to, body)
            cls = find_closures(body)
            ent["closures"] = {str(k): [" ".join(p[0].split()) for p in cls[k - 1].params] for k in u.closures if k <= len(cls)}
        out[name] = ent
    with open(os.path.join(CONTRACTS, "param_names.json"), "w") as f:
        json.dump(out, f, indent=1, sort_keys=True)
    print(len(out), "units")


main()
