"""dev loop: python3 -m vx.dev UNIT [--keep PATH]  — generate the world, run Verus, show failures with context"""
import sys, os, json, subprocess, re
from .world import load_units, build_world, Repo
from .rust_text import AnchorLost

def main():
    name = sys.argv[1]
    out = sys.argv[2] if len(sys.argv) > 2 else "/tmp/w_" + re.sub(r"\W+", "_", name) + ".rs"
    units = load_units()
    repo = Repo(os.environ.get("VERIF_REPO", "/repo"))
    text, cmap, log = build_world(name if name != "-" else None, units, repo)
    open(out, "w").write(text)
    p = subprocess.run(["verus", out, "--triggers-mode", "silent", "--multiple-errors", "10", "--error-format=json"],
                       capture_output=True, text=True)
    lines = text.split("\n")
    for l in p.stderr.splitlines():
        if not l.startswith("{"):
            continue
        d = json.loads(l)
        if d.get("level") not in ("error",):
            continue
        print("ERROR:", d["message"])
        for s in d.get("spans", []):
            ln = s["line_start"]
            print(f"   {ln}{'*' if s['is_primary'] else ' '} [{s.get('label')}] {cmap.get(ln, '')}")
            for k in range(max(0, ln - 1), min(len(lines), s["line_end"])):
                print("        |", lines[k][:220])
        for c in d.get("children", []):
            if c.get("message"):
                print("   note:", c["message"][:300])
    print(p.stdout.strip()[-300:])

main()
