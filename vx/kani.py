"""Kani harnesses appended (cfg(kani) only) to a scratch copy of the crate — DESIGN.md §3.2.

A harness is a function contract written as assume(pre) / assert(post) around the REAL function;
the harnesses registered `complete` are loop-free over the full machine domain, so a pass is a proof,
not a bounded result.  On failure Kani's concrete playback produces a unit test that is executed
natively against the real code (`cargo kani playback`): that is the replay.
"""
from __future__ import annotations
import json, os, re, shutil, subprocess, time
from .world import VERIF

APPEND = [
    ("kani/types.rs", "src/query.rs"),
    ("kani/comparison_harness.rs", "src/query/comparison.rs"),
    ("kani/index_harness.rs", "src/query/selector.rs"),
]

# harness -> (unit, obligation, kind)   kind: complete | bounded | probe (expected to fail: shows a precondition is necessary) | canary
HARNESSES = {
    "num_int_int":          ("eq/lt", "cmp.numbers.int_int", "complete"),
    "num_float_float":      ("eq/lt", "cmp.numbers.float_float", "complete"),
    "eq_int_float":         ("eq", "eq.numbers.int_float", "complete"),
    "eq_float_int":         ("eq", "eq.numbers.float_int", "complete"),
    "lt_int_float":         ("lt", "lt.numbers.int_float", "complete"),
    "lt_float_int":         ("lt", "lt.numbers.float_int", "complete"),
    "mixed_shapes_small":   ("eq/lt", "cmp.numbers.shapes", "bounded"),
    "cross_types":          ("eq/lt", "cmp.types", "complete"),
    "nothing":              ("eq/lt", "cmp.nothing", "complete"),
    "numbers_second_view":  ("eq/lt", "cmp.numbers.second_view", "complete"),
    "canary_must_fail":     ("eq", "canary", "canary"),
    "contract_cmp_i64_f64": ("cmp_i64_f64", "cmp_i64_f64.contract", "complete"),
    "index_ijson":          ("process_index", "index.rfc.len_le_3", "bounded"),
    "index_any_i64_probe":  ("process_index", "index.no_precondition", "probe"),
}
# harness unit -> name under which native.CEX_GROUPS lists the bounded groups that can stand in for it
KANI_STANDIN_UNIT = {"eq/lt": "kani:cmp", "eq": "kani:cmp", "lt": "kani:cmp", "cmp_i64_f64": "kani:cmp", "process_index": "process_index"}
BY_PROP = {
    "C04": ["num_int_int", "num_float_float", "eq_int_float", "eq_float_int", "lt_int_float", "lt_float_int",
            "mixed_shapes_small", "cross_types", "nothing", "contract_cmp_i64_f64", "canary_must_fail"],
    "C15": ["numbers_second_view", "num_int_int", "canary_must_fail"],
    # the comparison harnesses run the real eq / lt with Kani's overflow, cast and panic checks on: they are also
    # absence-of-panic proofs for the numeric comparison code (cmp_numbers, cmp_i64_f64)
    "C08": ["index_ijson", "index_any_i64_probe", "num_int_int", "num_float_float", "cross_types", "nothing"],
}
THOROUGH_EXTRA = {
    "C08": ["eq_int_float", "eq_float_int", "lt_int_float", "lt_float_int"],
    "C04": ["numbers_second_view"],
}


def harness_file(h: str) -> str:
    return "kani/index_harness.rs" if h.startswith("index_") else "kani/comparison_harness.rs"


def prepare_crate(run, files=None, tag: str = "", contract: bool = False) -> str:
    """scratch copy of the crate with the harness files appended (all of them, or only `files` + the shared types)"""
    dst = os.path.join(run.scratch, "kani-crate" + tag)
    if os.path.exists(dst):
        return dst
    subprocess.run(["rsync", "-a", "--exclude", "target", "--exclude", ".git", run.repo.root + "/", dst + "/"], check=True)
    for src, rel in APPEND:
        if files is not None and src != "kani/types.rs" and src not in files:
            continue
        with open(os.path.join(dst, rel), "a") as f:
            f.write(open(os.path.join(VERIF, src)).read())
        if src == "kani/comparison_harness.rs" and contract:
            # the Kani function contract of the numeric kernel is attached to the REAL function in place (one attribute line, cfg(kani) only)
            path = os.path.join(dst, rel)
            text = open(path).read()
            text, n = re.subn(r"(?m)^fn cmp_i64_f64\(", "#[cfg_attr(kani, kani::ensures(|r: &Option<Ordering>| verif_kani_cmp::post_cmp_i64_f64(i, f, r)))]\nfn cmp_i64_f64(", text, count=1)
            text = text.replace("#[cfg(all(kani, verif_kani_contract))]", "#[cfg(kani)]")   # the proof_for_contract harness exists only in this copy
            open(path, "w").write(text)
            run.kani_contract_attached = bool(n)
    return dst


def parse(output: str) -> dict:
    """harness short name -> dict(status, failed_checks, time, covers)"""
    res, thread_h = {}, {}
    cur = None
    for line in output.splitlines():
        m = re.match(r"Thread (\d+): Checking harness (\S+?)\.\.\.", line)
        if m:
            thread_h[m.group(1)] = m.group(2).rsplit("::", 1)[-1]
            continue
        m = re.match(r"Checking harness (\S+?)\.\.\.", line)
        if m:
            cur = m.group(1).rsplit("::", 1)[-1]
            res.setdefault(cur, {"failed_checks": []})
            continue
        m = re.match(r"Thread (\d+):\s*$", line)
        if m:
            cur = thread_h.get(m.group(1))
            res.setdefault(cur, {"failed_checks": []})
            continue
        if cur is None:
            continue
        if line.startswith("Failed Checks:"):
            res[cur]["failed_checks"].append(line[len("Failed Checks:"):].strip())
        m = re.match(r"VERIFICATION:- (\w+)", line)
        if m:
            res[cur]["status"] = m.group(1)
        m = re.match(r"Verification Time: ([0-9.]+)s", line)
        if m:
            res[cur]["time"] = float(m.group(1))
        m = re.match(r"\s*\*\* (\d+) of (\d+) cover properties satisfied", line)
        if m:
            res[cur]["covers"] = (int(m.group(1)), int(m.group(2)))
    return res


def cargo_kani(crate: str, harnesses: list[str], target: str, extra: list[str] = (), timeout=1200, jobs: int = 8, contracts: bool = False):
    env = dict(os.environ, CARGO_NET_OFFLINE="true", CARGO_TARGET_DIR=target)
    cmd = ["cargo", "kani", "-Z", "stubbing"] + (["-Z", "function-contracts"] if contracts else []) + [x for h in harnesses for x in ("--harness", h)] + \
          (["-j", str(jobs)] if jobs > 1 else []) + ["--output-format", "terse"] + list(extra)
    t0 = time.time()
    # own process group: on a timeout the whole tree (cargo-kani, kani-driver, the cbmc processes) is killed, not only cargo
    import signal
    p = subprocess.Popen(cmd, cwd=crate, env=env, stdout=subprocess.PIPE, stderr=subprocess.PIPE, text=True, start_new_session=True)
    try:
        so, se = p.communicate(timeout=timeout)
        out = so + se
    except subprocess.TimeoutExpired:
        try:
            os.killpg(p.pid, signal.SIGKILL)
        except ProcessLookupError:
            pass
        so, se = p.communicate()
        out = (so or "") + (se or "") + "\nTIMEOUT"
    return " ".join(cmd), out, time.time() - t0


def playback(run, crate: str, target: str, harness: str, contracts: bool = False) -> dict:
    """concrete playback: let Kani print the concrete values of the failing trace (one little-endian byte vector per
    kani::any()), then run the SAME harness natively against the real code on those values (native/main.rs kani_replay)"""
    cmd, out, _ = cargo_kani(crate, [harness], target, ["-Z", "concrete-playback", "--concrete-playback=print"], timeout=1800, jobs=1, contracts=contracts)
    m = re.search(r"let concrete_vals: Vec<Vec<u8>> = vec!\[(.*?)\];\s*kani::concrete_playback_run", out, flags=re.S)
    info = {"kani_cmd": cmd}
    if not m:
        info["note"] = "kani printed no concrete values"
        return info
    vals, comments = [], []
    for line in m.group(1).splitlines():
        line = line.strip()
        if line.startswith("//"):
            comments.append(line[2:].strip())
        mm = re.match(r"vec!\[([0-9, ]*)\],?", line)
        if mm:
            vals.append([int(x) for x in mm.group(1).split(",") if x.strip()])
    info["concrete_values"] = [{"bytes_le": v, "as": c} for v, c in zip(vals, comments + [""] * len(vals))]
    from . import native
    binp = native.build(run)
    if not binp:
        info["note"] = "native replay build failed"
        return info
    hexs = ";".join("".join(f"{b:02x}" for b in v) for v in vals)
    p = subprocess.run([binp, "kani_replay", harness, hexs], capture_output=True, text=True, timeout=600)
    try:
        r = json.loads(p.stdout.strip().splitlines()[-1])
    except Exception:
        r = {"reproduced": False, "note": "replay runner failed: " + p.stderr[-300:]}
    info["native_replay"] = r
    info["native_test_failed"] = bool(r.get("reproduced"))
    info["replay_cmd"] = f"verif-native-runner kani_replay {harness} {hexs}"
    return info


def run_for(run):
    names = list(BY_PROP.get(run.prop, []))
    if run.tier == "thorough":
        names += [h for h in THOROUGH_EXTRA.get(run.prop, []) if h not in names]
    if not names:
        return
    if run.tier == "quick" and run.prop == "C15":
        names = [n for n in names if n != "numbers_second_view"] + ["numbers_second_view"]
    # only the harness files this property needs are appended: a changed signature in another file must not break this build
    files = sorted({harness_file(h) for h in names})
    crate = prepare_crate(run, files)
    # a private target directory per run: concurrent checks must not share Kani's build artefacts
    target = os.path.join(run.scratch, "kani-target")
    plain = [h for h in names if not h.startswith("contract_")]
    cmd, out, wall = cargo_kani(crate, plain, target)
    res = parse(out)
    cnames = [h for h in names if h.startswith("contract_")]
    if cnames:
        # function contracts: the ensures attribute is attached to the real function in a SEPARATE scratch copy and checked with
        # -Z function-contracts there (with the attribute present every other harness that reaches the function slows down by 10x)
        c3 = prepare_crate(run, ["kani/comparison_harness.rs"], tag="-contract", contract=True)
        cmd3, out3, _ = cargo_kani(c3, cnames, target + "-contract", contracts=True)
        res.update(parse(out3))
        out += out3
        cmd += " ; " + cmd3
        if not getattr(run, "kani_contract_attached", True):
            run.undecided.append("kani function contract: `fn cmp_i64_f64(` not found in src/query/comparison.rs - the ensures attribute could not be attached")
    if len(files) > 1 and not any(res.get(h, {}).get("status") for h in plain):
        # nothing ran (the crate with both harness files does not build): one crate per harness file, so that the file whose
        # functions kept their signatures is still decided
        res, out = {}, ""
        for i, fl in enumerate(files):
            sub = [h for h in plain if harness_file(h) == fl]
            c2 = prepare_crate(run, [fl], tag=f"-{i}")
            cmd2, out2, _ = cargo_kani(c2, sub, target + f"-{i}")
            res.update(parse(out2))
            out += out2
            cmd += " ; " + cmd2
    run.checker_cmds.append(re.sub(r"\s+", " ", cmd))
    for h in names:
        unit, obl, kind = HARNESSES[h]
        r = res.get(h, {})
        st = r.get("status")
        rep = {"unit": unit, "harness": h, "obligation": obl, "backend": "kani/cbmc", "kind": kind,
               "status": st, "time_s": r.get("time"), "covers": r.get("covers")}
        run.unit_reports.append(rep)
        if st is None:
            if "TIMEOUT" not in out and kind in ("complete", "bounded"):
                # the harness does not build against this tree (it IS a call of the function, whose signature changed): the function is out of
                # Kani's reach on this tree; a bounded check of it may stand in (driver.resolve_standins), labelled and never counted as discharged
                if kind == "complete":
                    run.obligations += 1
                rep["status"] = "undecided"
                run.standin_candidates.append((KANI_STANDIN_UNIT.get(unit, unit), f"kani harness {h} does not build against this tree: " + out[-160:].replace("\n", " | "), rep))
                continue
            if kind == "canary" and "TIMEOUT" not in out and not any(res.get(x, {}).get("status") for x in names if harness_file(x) == harness_file(h)):
                continue      # nothing of this harness file was built: the canary says nothing more than the harnesses it guards
            run.undecided.append(f"kani harness {h}: no result ({'timeout' if 'TIMEOUT' in out else 'build/tool failure'}): " + out[-300:].replace("\n", " | "))
            continue
        if kind == "canary":
            if st != "FAILED":
                run.undecided.append(f"kani canary {h} did not fail — vacuity guard")
            continue
        if kind == "probe":
            # informational: the harness has NO precondition; a failure shows the precondition is necessary
            rep["note"] = "expected to fail without the I-JSON precondition: " + "; ".join(r.get("failed_checks", []))[:300]
            run.notes.append(f"probe {h}: {st}")
            continue
        cov = r.get("covers")
        if cov and cov[0] != cov[1]:
            run.undecided.append(f"kani harness {h}: cover not satisfied {cov} — harness may be vacuous")
        if kind == "complete":
            run.obligations += 1
        else:
            run.bounded["kani_bounded_harnesses"] = run.bounded.get("kani_bounded_harnesses", 0) + 1
        if st == "SUCCESSFUL":
            if kind == "complete":
                run.discharged += 1
            run.samples.append({"obligation": obl, "unit": unit, "backend": "kani", "kind": kind, "result": "SUCCESSFUL"})
        else:
            pb = {}
            try:
                run._kani_playbacks = getattr(run, "_kani_playbacks", 0) + 1
                pb = (playback(run, os.path.join(run.scratch, "kani-crate-contract"), target + "-contract", h, contracts=True) if h.startswith("contract_") else playback(run, crate, target, h)) if run._kani_playbacks <= 2 else {"note": "playback limited to the first two failing harnesses of a run"}
            except Exception as e:      # playback is best effort; the violation is reported either way
                pb = {"error": str(e)}
            os.makedirs(os.path.join(VERIF, "replays"), exist_ok=True)
            path = os.path.join(VERIF, "replays", f"{run.prop}_kani_{h}.json")
            doc = {"property": run.prop, "unit": unit, "backend": "kani", "harness": h, "failed_obligations": [obl],
                   "verifier_output": r.get("failed_checks", []), "verifier_cmd": cmd, "counterexample": pb}
            with open(path, "w") as f:
                json.dump(doc, f, indent=1)
            run.violations.append({"unit": unit, "obligations": [obl], "replay": path,
                                   "cex": pb if pb.get("native_test_failed") else None})
    run.trusted.update(["kani/cbmc: bit-precise i64/f64 semantics; SAT solver",
                        "kani harness types S/S2/K (drop-free Queryable instances, kani/types.rs)",
                        "kani oracle math_cmp_i64_f64: exact order by f64 bit decomposition in i128"])
