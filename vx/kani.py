"""Kani harnesses appended to a scratch copy of the crate — see DESIGN.md 3.2."""
from __future__ import annotations


def run_for(run):
    return
