"""check <PROPERTY> [--tier quick|thorough] [--replay FILE]

Exit 0: every deciding unit proved (or, bounded units, held on everything enumerated) and every
        violation found is an open known finding.
Exit 1: at least one violation that is not a listed finding (one `VIOLATION property=.. replay=..` line each).
Exit 2: undecided (anchor lost, unsupported construct, resource limit, tool failure) — never an alarm.
"""
from __future__ import annotations
import argparse, json, os, re, shutil, sys, tempfile, time, traceback
from concurrent.futures import ThreadPoolExecutor

from .rust_text import AnchorLost
from .world import load_units, build_world, Repo, Unit, VERIF, CONTRACTS
from .verus_run import run_verus, VerusResult
from . import props as P

REPO = os.environ.get("VERIF_REPO", "/repo")


def scan_trusted(world_text: str, units: dict) -> list[str]:
    """mechanical scan of a generated world for everything that is assumed rather than proved"""
    items = set()
    lines = world_text.split("\n")
    unit_fns = {}
    stub = None        # the unit whose contract stub (or real text) the current line belongs to
    impl_ty = None     # the type of the impl block the current line belongs to (helpers: names the method)
    for i, l in enumerate(lines):
        ms = re.match(r"\s*/\*@@(stub|end) (.*)\*/", l)
        if ms:
            stub = ms.group(2) if ms.group(1) == "stub" else None
        mi = re.match(r"impl(?:<[^>]*>)?\s+(?:[\w:<>', ]+\s+for\s+)?([A-Za-z_]\w*)", l)
        if mi:
            impl_ty = mi.group(1)
        elif l.startswith("}"):
            impl_ty = None
        if "#[verifier::external_body]" in l:
            j = i if re.search(r"\b(fn|struct)\s+\w+", l.split("#[verifier::external_body]", 1)[1]) else i + 1
            while j < len(lines) and not re.search(r"\b(fn|struct)\s+(\w+)", lines[j]):
                j += 1
            m = re.search(r"\b(fn|struct)\s+(\w+)", lines[j].split("#[verifier::external_body]")[-1]) if j < len(lines) else None
            kind, nm = (m.group(1), m.group(2)) if m else ("fn", "?")
            if kind == "struct":
                items.add(("opaque-dependency-type", nm, j))
                continue
            if stub is not None and stub in units:
                u = units[stub]
                if u.status != "proved":
                    items.add(("assumed-unit", f"{u.name} ({u.why_assumed})", j))
                continue   # contract of a proved unit: discharged in that unit's own world
            items.add(("external_body", (impl_ty + "::" if impl_ty and l.startswith("    ") else "") + nm, j))
        m = re.search(r"assume_specification(?:<[^>]*>)?\s*\[\s*([^\]]+)\]", l)
        if m:
            items.add(("assume_specification", m.group(1).strip(), i))
        m = re.search(r"\baxiom fn\s+(\w+)", l)
        if m:
            items.add(("axiom", m.group(1), i))
        if re.search(r"\b(assume|admit)\s*\(", l) and "assume_specification" not in l:
            items.add(("assume/admit", l.strip()[:60], i))
        m = re.search(r"^\s*proof fn\s+(\w+)\s*\(", l)
        if m:
            # trait-level proof fn without body = assumption on implementors
            k = i
            while k < len(lines) and "{" not in lines[k] and not lines[k].rstrip().endswith(";"):
                k += 1
            if k < len(lines) and lines[k].rstrip().endswith(";") and "{" not in lines[k]:
                items.add(("implementor-assumption", m.group(1), i))
        m = re.search(r"\buninterp spec fn\s+(\w+)", l)
        if m:
            items.add(("uninterpreted", m.group(1), i))
    return sorted({f"{k}: {n}" for k, n, _ in items})


EXTRACTION_REASONS = ("anchor lost", "rustc error in generated world", "verus rejected the world", "verus produced no verification results")


def is_extraction_reason(reason: str) -> bool:
    return any((reason or "").startswith(x) for x in EXTRACTION_REASONS)


class Run:
    def __init__(self, prop: str, tier: str, seed: int):
        self.prop, self.tier, self.seed = prop, tier, seed
        self.t0 = time.time()
        self.scratch = tempfile.mkdtemp(prefix=f"verif-{prop}-")
        self.repo = Repo(REPO)
        self.units = load_units()
        self.violations: list[dict] = []
        self.known: list[str] = []
        self.undecided: list[str] = []
        self.standin_candidates: list = []
        self.standins: list[str] = []
        self.notes: list[str] = []
        self.unit_reports: list[dict] = []
        self.trusted: set[str] = set()
        self.obligations = 0
        self.discharged = 0
        self.samples: list = []
        self.bounded: dict = {}
        self.assumptions: list[str] = []
        self.checker_cmds: list[str] = []

    def cleanup(self):
        shutil.rmtree(self.scratch, ignore_errors=True)

    # ---------------------------------------------------------------- verus
    def clause_names(self, u: Unit) -> list[str]:
        names = [f"{u.name}.post.{n}" for n, _ in u.ensures]
        for k, c in u.closures.items():
            names += [f"{u.name}.cl{k}.post.{n}" for n, _ in c.ensures]
        for k, l in u.loops.items():
            names += [f"{u.name}.loop{k}.inv.{n}" for n, _ in l.invariant]
            if l.decreases:
                names.append(f"{u.name}.loop{k}.decreases")
        names.append(f"{u.name}.safety")   # overflow, bounds, callee preconditions, termination of spec recursion
        return names

    def verus_unit(self, uname: str, mutate=None, tag: str = "", rlimit=None, seed=None) -> VerusResult:
        u = self.units[uname]
        exclude: list = []
        while True:
            try:
                text, cmap, log = build_world(uname, self.units, self.repo, mutate=mutate, exclude=tuple(exclude))
            except AnchorLost as e:
                r = VerusResult(unit=uname, status="undecided", reason=f"anchor lost: {e}")
                return r
            path = os.path.join(self.scratch, re.sub(r"\W+", "_", uname) + tag + ".rs")
            with open(path, "w") as f:
                f.write(text)
            fn_names = u.verified_fns or [self.verus_fn_name(u)]
            r = run_verus(path, uname, fn_names, cmap, rlimit=rlimit, seed=seed)
            r.log = log
            r.text = text
            # a compile error inside the contract stub of ANOTHER unit (its signature changed in this tree) must not make this
            # unit undecided: leave that stub out and try again; if this unit needs it, the next error is in its own text
            culprit = None
            if r.status == "undecided" and r.err_line and len(exclude) < 8:
                cur = None
                for i, line in enumerate(text.split("\n"), 1):
                    m = re.match(r"/\*@@(stub|end) (.*)\*/", line.strip())
                    if m:
                        cur = m.group(2) if m.group(1) == "stub" else None
                    if i == r.err_line:
                        culprit = cur
                        break
            if culprit and culprit != uname and culprit not in exclude:
                exclude.append(culprit)
                continue
            return r

    @staticmethod
    def verus_fn_name(u: Unit) -> str:
        return u.fn

    def run_verus_units(self, unames: list[str]):
        canaries = P.canaries(self.prop, self.tier, self.units, unames)
        jobs = [("real", n, None) for n in unames] + [("canary", n, c) for n, c in canaries]
        seeds = [None]
        if self.tier == "thorough":
            seeds = [None, (self.seed * 7919 + 1) % 100000, (self.seed * 104729 + 2) % 100000]

        def work(job):
            kind, n, c = job
            if kind == "real":
                rs = [self.verus_unit(n, seed=s, tag=f"_s{i}", rlimit=(20 if i else None)) for i, s in enumerate(seeds)]
                return kind, n, c, rs
            return kind, n, c, [self.verus_unit(n, mutate=c["mutate"], tag="_canary_" + c["id"])]

        with ThreadPoolExecutor(max_workers=min(8, max(1, len(jobs)))) as ex:
            results = list(ex.map(work, jobs))
        for kind, n, c, rs in results:
            if kind == "canary":
                r = rs[0]
                ok = r.status == "failed"
                self.unit_reports.append({"unit": n, "canary": c["id"], "must_fail": True, "status": r.status,
                                          "failed_clauses": sorted({f.clause or f.kind for f in r.failures})})
                if not ok and not (r.status == "undecided" and is_extraction_reason(r.reason)):
                    # (when the contract cannot be attached to this tree at all, the unit itself is reported; its canary says nothing more)
                    self.undecided.append(f"canary {c['id']} on {n} did not fail (status {r.status}: {r.reason}) — vacuity guard")
                continue
            self.account_verus(n, rs)

    def account_verus(self, n: str, rs: list[VerusResult]):
        u = self.units[n]
        r = rs[0]
        clauses = self.clause_names(u)
        rep = {"unit": n, "file": u.file, "fn": (u.impl + " :: " if u.impl else "") + u.fn, "backend": "verus",
               "status": r.status, "obligations": len(clauses), "wall_s": round(r.wall_s, 2),
               "smt_ms": round(r.smt_ms, 1), "rlimit": r.rlimit, "rewrites": getattr(r, "log", []),
               "verified_items": r.verified}
        if r.status == "proved":
            flips = [x for x in rs[1:] if x.status != "proved"]
            if flips:
                rep["status"] = "unstable"
                self.undecided.append(f"{n}: proved with the default seed but not with another seed/rlimit ({flips[0].status}: {flips[0].reason})")
            else:
                self.discharged += len(clauses)
            self.obligations += len(clauses)
            rep["discharged"] = len(clauses) if not flips else 0
            self.trusted.update(scan_trusted(r.text, self.units))
            self.checker_cmds.append(r.cmd)
            self.samples.append({"obligation": clauses[0], "unit": n, "backend": "verus", "result": "discharged"})
        elif r.status == "failed" and all(f.source_assert for f in r.failures):
            # the only obligations that fail are assert! / debug_assert! macros written in the source of THIS tree: new obligations (they did
            # not exist, hence did not pass, on the unchanged tree) which the contracts cannot discharge - e.g. an assertion inside a closure
            # that holds at every call site.  Not a violation by itself: the bounded groups run with debug assertions ON, so an assertion
            # that can fire shows up there as a panic with its input.  The unit is decided by the bounded stand-in, or stays undecided.
            rep["reason"] = "verus rejected the world (unsupported construct): the tree adds assertion(s) that the contracts cannot discharge: " + \
                "; ".join(sorted({f"{f.kind} @ {f.detail}" for f in r.failures}))[:300]
            self.obligations += len(clauses)
            rep["status"] = "undecided"
            rep["obligations_not_discharged"] = len(clauses)
            self.standin_candidates.append((n, rep["reason"], rep))
        elif r.status == "failed":
            # (failures on source-level assertions are dropped when contract obligations fail as well: the latter decide)
            r.failures = [f for f in r.failures if not f.source_assert] or r.failures
            def cname(f):
                if f.clause:
                    return f.clause
                if u.trait_method and "postcondition" in f.kind:
                    return f"{n}.post.rel"
                return f"{n}.safety"
            failed = sorted({cname(f) for f in r.failures})
            rep["failed_clauses"] = failed
            rep["verifier_output"] = [f"{f.kind} @ {f.detail}" for f in r.failures][:20]
            self.obligations += len(clauses)
            self.discharged += max(0, len(clauses) - len(set(failed)))
            policy = P.PROPS[self.prop].get("verus_policy", "all")
            if policy == "safety":
                # this property is about panics / overflow / termination / the Ok-Err mapping: a failed FUNCTIONAL clause of a
                # unit in its closure is another property's business and is reported there
                relevant = [c for c in failed if c.endswith(".safety") or c.endswith(".decreases") or ".pre." in c or c in P.PROPS[self.prop].get("own_clauses", [])]
                rep["note"] = "functional clauses failed; not an obligation of this property" if not relevant else ""
                if relevant:
                    self.candidate_violation(n, relevant, r)
            elif policy == "own":
                # only the clauses named for this property are its obligations; the other clauses of the shared units belong to C01-C03
                relevant = [c for c in failed if c in P.PROPS[self.prop].get("own_clauses", [])]
                rep["note"] = "clauses of other properties failed; not an obligation of this property" if not relevant else ""
                if relevant:
                    self.candidate_violation(n, relevant, r)
            elif policy == "undecided":
                # parametricity claim: a unit that no longer verifies is undecided for this property, not a violation of it
                self.undecided.append(f"{n}: no longer verifies ({', '.join(failed)[:160]}) - reported as a violation by the properties it serves")
            else:
                self.candidate_violation(n, failed, r)
        else:
            rep["reason"] = r.reason
            if is_extraction_reason(r.reason):
                # the contract could not be attached to (or the verifier cannot take) this tree's text of the function: the function is
                # outside the verifier's reach on this tree; a bounded check of the function may stand in (resolved after the bounded groups ran)
                self.obligations += len(clauses)
                rep["obligations_not_discharged"] = len(clauses)
                self.standin_candidates.append((n, r.reason, rep))
            else:
                self.undecided.append(f"{n}: {r.reason}")
        self.unit_reports.append(rep)

    def resolve_standins(self):
        """a unit whose contract cannot be attached to this tree is decided by a BOUNDED check of that function, if one exists, ran on
        non-trivial inputs and found nothing that is not a recorded finding; labelled bounded, never counted as discharged"""
        from . import native, findings
        for n, reason, rep in self.standin_candidates:
            groups = native.CEX_GROUPS.get(n) or [g for g, _ in native.GROUPS.get(self.prop, [])] or ["e2e"]
            res = native.run_groups(self, groups)
            why = None
            if not res:
                why = "the bounded back end is not available"
            else:
                # a group that calls the changed private function directly may not compile against this tree; the groups that reach the
                # function through the public evaluator then stand in alone (at least one group must have run)
                avail = [r for r in res if not r.get("unavailable")]
                if not avail:
                    why = f"bounded group {res[0]['group']} does not compile against this tree"
                for r in avail:
                    if r.get("unavailable"):
                        why = f"bounded group {r['group']} does not compile against this tree"
                    elif not r["evaluations"]:
                        why = f"bounded group {r['group']} evaluated nothing"
                    else:
                        # obligations of this group that some property listens to (the others are by-products nobody claims, e.g. the
                        # path text seen through the second implementation)
                        listened = {p for spec in list(native.GROUPS.values()) + list(native.THOROUGH_GROUPS.values()) for g, ps in spec if g == r["group"] for p in ps}
                        for f in r["failures"]:
                            if not any(f["obligation"].startswith(p) for p in listened):
                                continue
                            v = {"unit": f["obligation"].rsplit(".", 1)[0], "obligations": [f["obligation"]], "features": f["features"]}
                            if not findings.match_open(None, v):
                                why = f"bounded group {r['group']} reports {f['obligation']} (reported as a violation by the property it belongs to)"
                                break
                    if why:
                        break
            if why:
                self.undecided.append(f"{n}: {reason}; no bounded stand-in: {why}")
                continue
            n_eval = sum(r["evaluations"] for r in res if not r.get("unavailable"))
            groups = [r["group"] for r in res if not r.get("unavailable")]
            if rep not in self.unit_reports:
                self.unit_reports.append(rep)
            rep["status"] = "bounded-stand-in"
            rep["stand_in"] = {"groups": groups, "evaluations": n_eval, "label": "bounded: never counted as discharged"}
            self.standins.append(f"unit={n} contract not attachable to this tree ({reason[:140]}); bounded check of the function stands in: groups {','.join(groups)}, {n_eval} evaluations")

    def candidate_violation(self, n: str, failed: list[str], r: VerusResult):
        """a clause that is discharged on the unchanged tree now fails: look for a failing input"""
        from . import native
        cex = native.search_counterexample(self, n, failed)
        rid = re.sub(r"\W+", "_", n)
        os.makedirs(os.path.join(VERIF, "replays"), exist_ok=True)
        path = os.path.join(VERIF, "replays", f"{self.prop}_{rid}.json")
        doc = {"property": self.prop, "unit": n, "backend": "verus", "failed_obligations": failed,
               "verifier_output": [f"{f.kind} @ {f.detail}" for f in r.failures][:20],
               "verifier_cmd": r.cmd, "counterexample": cex}
        with open(path, "w") as f:
            json.dump(doc, f, indent=1)
        self.violations.append({"unit": n, "obligations": failed, "replay": path, "cex": cex})

    # ---------------------------------------------------------------- finish
    def finish(self) -> int:
        from . import findings
        wall = time.time() - self.t0
        new_violations = []
        known_by_id: dict = {}
        for v in self.violations:
            k = findings.match_open(self.prop, v)
            if k:
                fid = k.split(" ", 1)[0]
                e = known_by_id.setdefault(fid, {"text": k, "n": 0, "obs": set()})
                e["n"] += v.get("count") or 1
                e["obs"].update(v.get("obligations", []))
            else:
                new_violations.append(v)
        for fid, e in sorted(known_by_id.items()):
            what = e["text"].split(": ", 1)[1] if ": " in e["text"] else e["text"]
            self.known.append(f"{fid} obligations={','.join(sorted(e['obs']))} failing_inputs_this_run={e['n']}: {what}")
        level = P.PROPS[self.prop]["level"]
        cov = {
            "obligations": self.obligations,
            "discharged": self.discharged,
            "checker_cmd": "; ".join(sorted(set(re.sub(r"/tmp/verif-[^/ ]+/", "<scratch>/", c) for c in self.checker_cmds)))[:4000] or "none",
            "trusted_base": sorted(self.trusted),
            "explanation": P.PROPS[self.prop]["explanation"],
            "units": self.unit_reports,
            "samples": self.samples[:12],
            "undecided": self.undecided,
            "bounded_stand_ins": self.standins,
            "known_findings_reported": self.known,
            "exhaustive": False,
        }
        cov.update(self.bounded)
        ev = {"property_id": self.prop, "tier": self.tier, "seed": self.seed, "level": level, "coverage": cov,
              "assumptions": sorted(set(self.assumptions + P.PROPS[self.prop].get("assumptions", []))),
              "wall_s": round(wall, 2), "violations": len(new_violations)}
        # /verif/evidence is what gets committed: it is written only by runs against /repo itself; runs of the development tools
        # against another tree (VERIF_REPO=..., seeded or harmless patches) write next to their scratch data instead
        edir = os.path.join(VERIF, "evidence") if os.path.realpath(self.repo.root) == "/repo" else os.path.join("/tmp", "verif-evidence-other-trees")
        os.makedirs(edir, exist_ok=True)
        with open(os.path.join(edir, f"{self.prop}.json"), "w") as f:
            json.dump(ev, f, indent=1, default=str)
        for k in self.known:
            print(f"KNOWN-FINDING: property={self.prop} {k}")
        for v in new_violations:
            tail = "" if v.get("cex") else " no-failing-input-found"
            print(f"VIOLATION property={self.prop} replay={v['replay']}{tail}")
        for u in self.standins:
            print(f"STAND-IN property={self.prop} {u}")
        for u in self.undecided:
            print(f"UNDECIDED property={self.prop} {u}", file=sys.stderr)
        print(f"{self.prop} {self.tier}: obligations={self.obligations} discharged={self.discharged} "
              f"bounded_evaluations={self.bounded.get('evaluations', 0)} violations={len(new_violations)} "
              f"known={len(self.known)} undecided={len(self.undecided)} stand_ins={len(self.standins)} wall={wall:.1f}s")
        if new_violations:
            return 1
        if self.undecided:
            return 2
        return 0


def main(argv=None) -> int:
    ap = argparse.ArgumentParser()
    ap.add_argument("prop")
    ap.add_argument("--tier", default=os.environ.get("VERIF_TIER", "quick"), choices=["quick", "thorough"])
    ap.add_argument("--replay")
    ap.add_argument("--keep", action="store_true")
    a = ap.parse_args(argv)
    seed = int(os.environ.get("VERIF_SEED", "0") or 0)
    if a.prop not in P.PROPS:
        print(f"unknown or not-applicable property {a.prop}", file=sys.stderr)
        return 2
    if a.replay:
        from . import replay
        return replay.replay(a.prop, a.replay)
    run = Run(a.prop, a.tier, seed)
    try:
        P.execute(run)
        return run.finish()
    except Exception:
        traceback.print_exc()
        print(f"UNDECIDED property={a.prop} driver error", file=sys.stderr)
        return 2
    finally:
        if not a.keep:
            run.cleanup()


if __name__ == "__main__":
    sys.exit(main())
