"""Assemble the Verus input for one unit ("world" file).

world(unit U) =  prelude
               + spec vocabulary                      (contracts/spec_*.rs, written from RFC 9535)
               + trait Queryable (rule E6)            (contracts/queryable_trait.rs, signatures checked against /repo)
               + type definitions                     (copied from /repo, derives dropped: rule E5)
               + assumed helpers for iterator shapes  (contracts/helpers.rs: rule E4)
               + every unit of the store as a stub: real signature + its contract, `external_body`
               + unit U with its REAL body copied from /repo, contracts spliced in (rules E1, E2, E4, E6, E7, E8)

A caller is therefore checked against the callee's contract text, never the callee's body, and
the contract text assumed for V in U's world is byte-for-byte the text proved in V's world.
"""
from __future__ import annotations
import json, os, re, importlib.util, glob
from dataclasses import dataclass, field
from .rust_text import (AnchorLost, FnItem, find_fn, find_block_item, find_closures, split_top, split_param,
                        is_simple_pat, strip_comments, apply_template, tokenize, close_of, _norm)

VERIF = os.path.dirname(os.path.dirname(os.path.abspath(__file__)))
CONTRACTS = os.path.join(VERIF, "contracts")

# ---- rule E4: iterator shapes (template -> helper call).  Helper contracts live in contracts/helpers.rs
SHAPES = {
    "R1":    ("$X.into_iter().chain($Y).collect()", "vf_chain_collect($X, $Y)"),
    "R2":    ("$X.iter().enumerate().map($F).collect()", "vf_enumerate_map_collect($X, $F)"),
    "R2v":   ("$X.into_iter().map($F).collect()", "vf_into_map_collect($X, $F)"),
    "R2vv":  ("$X.into_iter().map($F).collect::<Vec<_>>()", "vf_into_map_collect($X, $F)"),
    "R3":    ("$X.into_iter().flat_map($G).collect::<Vec<_>>()", "vf_flat_map_collect($X, $G)"),
    "R7":    ("$X.into_iter().map($F).flat_map($G).collect::<Vec<_>>()", "vf_ref_map_flat_map_collect($X, $F, $G)"),
    "R4":    ("$X.into_iter().enumerate().filter($P).map($F).collect()", "vf_enumerate_filter_map_collect($X, $P, $F)"),
    "R4v":   ("$X.into_iter().filter($P).map($F).collect()", "vf_filter_map_collect($X, $P, $F)"),
    "R5any": ("$X.iter().any($P)", "vf_iter_any($X, $P)"),
    "R5all": ("$X.iter().all($P)", "vf_iter_all($X, $P)"),
    "R5mall": ("$X.iter().map($F).all($P)", "vf_iter_map_all($X, $F, $P)"),
    "Rz":    ("$X.iter().zip($Y).all($P)", "vf_zip_all($X, $Y, $P)"),
    "Rzi":   ("$X.iter().zip($Y.iter()).all($P)", "vf_zip_all($X, $Y, $P)"),
    "R2i":   ("$X.iter().map($F).collect::<Vec<_>>()", "vf_iter_map_collect($X, $F)"),
    "R6":    ("$X.iter().fold($I, $F)", "vf_iter_fold($X, $I, $F)"),
    "R6r":   ("$X.into_iter().map($F).reduce($G).unwrap_or($D)", "vf_map_reduce_or($X, $F, $G, $D)"),
    # rule E6: conversions through From/Into become calls of the assumed VfInto instances
    "E6":    ("$X.into()", "$X.vf_into()"),
    # rule E6v: bool -> serde_json::Value inside `impl Queryable for Value` (contracts/value_world.rs)
    "E6v":   ("$X.into()", "vf_value_from_bool($X)"),
    # str::chars().count(): assumed helper (number of Unicode scalar values)
    "Echars": ("$X.chars().count()", "vf_chars_count($X)"),
}


@dataclass
class Cl:
    """annotation of the k-th closure of a function (rule E2)"""
    types: list | None = None          # parameter types, for parameters that have none in the source
    ret: str = ""                      # e.g. "(o: Data<'a, T>)"
    requires: list = field(default_factory=list)   # [(name, text)]
    ensures: list = field(default_factory=list)
    pre_body: str = ""                 # ghost lines at the start of the closure body
    expect: str = ""                   # whitespace-insensitive text that must occur in the closure (anchor)


@dataclass
class Loop:
    invariant: list = field(default_factory=list)
    decreases: str = ""


@dataclass
class Unit:
    name: str
    file: str
    fn: str
    impl: str | None = None
    ret_name: str = "r"
    requires: list = field(default_factory=list)
    ensures: list = field(default_factory=list)
    closures: dict = field(default_factory=dict)      # ordinal (1-based) -> Cl
    loops: dict = field(default_factory=dict)         # ordinal (1-based) -> Loop
    shapes: list = field(default_factory=list)        # [(rule, expected_count)]
    text_rewrites: list = field(default_factory=list)  # [(label, from, to, count)]  (rules E7/E8 and documented others)
    body_prefix: str = ""
    hints: list = field(default_factory=list)         # [(after_text, proof_text)]
    tail_proof: str = ""                              # rule E7
    attrs: list = field(default_factory=list)
    impl_extra: str = ""                              # spec fns that belong to the impl block (trait impls)
    trait_method: bool = False                        # contract comes from the trait declaration
    status: str = "proved"                            # proved | assumed
    serves: list = field(default_factory=list)
    order: int = 100
    verified_fns: list = field(default_factory=list)  # names Verus reports for this unit (default: derived)
    why_assumed: str = ""
    calls: list = field(default_factory=list)         # callee units that name matching cannot resolve (trait methods, same-named methods)
    sig_override: str | None = None                    # for assumed units whose signature Verus cannot take


def load_units() -> dict[str, Unit]:
    units: dict[str, Unit] = {}
    for path in sorted(glob.glob(os.path.join(CONTRACTS, "units", "*.py"))):
        spec = importlib.util.spec_from_file_location("u_" + os.path.basename(path)[:-3], path)
        mod = importlib.util.module_from_spec(spec)
        mod.Unit, mod.Cl, mod.Loop = Unit, Cl, Loop
        spec.loader.exec_module(mod)
        for u in getattr(mod, "UNITS", []):
            if u.name in units:
                raise RuntimeError(f"duplicate unit {u.name}")
            units[u.name] = u
    return units


_NAMES = None


def expected_names() -> dict:
    """contracts/param_names.json: the parameter names (functions and annotated closures) the contracts were written against
    (snapshot of the tree the contracts were developed on; regenerate with `python3 -m vx.names`)"""
    global _NAMES
    if _NAMES is None:
        try:
            with open(os.path.join(CONTRACTS, "param_names.json")) as f:
                _NAMES = json.load(f)
        except FileNotFoundError:
            _NAMES = {}
    return _NAMES


def _bare(pat: str) -> str:
    return re.sub(r"^mut\s+", "", pat.strip())


class Repo:
    def __init__(self, root: str):
        self.root = root
        self._cache: dict[str, str] = {}

    def read(self, rel: str) -> str:
        if rel not in self._cache:
            with open(os.path.join(self.root, rel)) as f:
                self._cache[rel] = f.read()
        return self._cache[rel]


# ----------------------------------------------------------------------------------------
TYPE_ITEMS = [
    ("src/query/state.rs", r"pub struct State<"),
    ("src/query/state.rs", r"pub enum Data<"),
    ("src/query/state.rs", r"pub\(crate\) struct Pointer<"),
    ("src/parser/model.rs", r"pub struct JpQuery\b"),
    ("src/parser/model.rs", r"pub enum Segment\b"),
    ("src/parser/model.rs", r"pub enum Selector\b"),
    ("src/parser/model.rs", r"pub enum Filter\b"),
    ("src/parser/model.rs", r"pub enum FilterAtom\b"),
    ("src/parser/model.rs", r"pub enum Comparison\b"),
    ("src/parser/model.rs", r"pub enum Comparable\b"),
    ("src/parser/model.rs", r"pub enum SingularQuery\b"),
    ("src/parser/model.rs", r"pub enum SingularQuerySegment\b"),
    ("src/parser/model.rs", r"pub enum Test\b"),
    ("src/parser/model.rs", r"pub enum TestFunction\b"),
    ("src/parser/model.rs", r"pub enum FnArg\b"),
    ("src/parser/model.rs", r"pub enum Literal\b"),
]


def rewrite_e3(body: str, uname: str, log: list) -> str:
    """rule E3: `JsonPathError::Variant(format!(..))` -> `vf_error()` (the message text is dropped)"""
    n = 0
    while True:
        toks = tokenize(body)
        hit = None
        for i, t in enumerate(toks):
            if t.kind == "ident" and t.text == "format" and i + 2 < len(toks) and toks[i + 1].text == "!" and toks[i + 2].text == "(":
                if i >= 5 and toks[i - 1].text == "(" and toks[i - 2].kind == "ident" and toks[i - 3].text == ":" and toks[i - 4].text == ":" \
                        and toks[i - 5].text == "JsonPathError":
                    e = close_of(toks, i + 2)
                    if e + 1 < len(toks) and toks[e + 1].text == ")":
                        hit = (toks[i - 5].start, toks[e + 1].end)
                        break
        if not hit:
            break
        body = body[:hit[0]] + "vf_error()" + body[hit[1]:]
        n += 1
    if n:
        log.append(f"E3 {uname}: JsonPathError::_(format!(..)) -> vf_error() x{n}")
    return body


LINE_ITEMS = [
    ("src/parser.rs", r"const MAX_VAL: i64 = 9007199254740991;"),
    ("src/parser.rs", r"const MIN_VAL: i64 = -9007199254740991;"),
    ("src/query.rs", r"pub struct QueryRef<'a, T: Queryable>\(&'a T, QueryPath\);"),
    ("src/query.rs", r"pub type Queried<T> = Result<T, JsonPathError>;"),
    ("src/parser.rs", r"pub type Parsed<T> = Result<T, JsonPathError>;"),
]


def extract_types(repo: Repo, log: list) -> str:
    out = ["// E5c: JsonPathError (thiserror derive over pest types) is replaced by an opaque stand-in; it is only\n"
           "// ever produced through `.into()` / `?` in the units under contract\npub struct JsonPathError { pub opaque: () }"]
    for rel, pat in LINE_ITEMS:
        m = re.search(pat, strip_comments(repo.read(rel)))
        if not m:
            raise AnchorLost(f"item not found in {rel}: {pat}")
        txt = m.group(0)
        if txt.startswith("pub struct QueryRef"):
            txt = txt.replace("(&'a T, QueryPath)", "(pub &'a T, pub QueryPath)")
            log.append("E5 QueryRef: private tuple fields made pub (single-file crate; specs name them)")
        out.append(txt)
        log.append(f"E5 item copied from {rel}: {m.group(0)[:40]}")
    for rel, hdr in TYPE_ITEMS:
        src = repo.read(rel)
        s, _, e = find_block_item(src, hdr)
        txt = strip_comments(src[s:e])
        if txt.startswith("pub(crate)"):
            txt = "pub" + txt[len("pub(crate)"):]
            log.append(f"E5 {hdr}: visibility pub(crate) -> pub (single-file crate)")
        out.append(txt)
        log.append(f"E5 type copied from {rel}: {hdr} (derive attributes dropped)")
    return "\n".join(out)


def check_trait_sigs(repo: Repo, log: list) -> str:
    text = open(os.path.join(CONTRACTS, "queryable_trait.rs")).read()
    src = strip_comments(repo.read("src/query/queryable.rs"))
    s, b, e = find_block_item(src, r"pub trait Queryable\b")
    body = _norm(src[b:e])
    for m in re.finditer(r"//@sig\s*\n\s*fn\s+(\w+)\s*(\([^)]*\))\s*->\s*\(r:\s*(.*?)\)\s*\n", text):
        name, params, ret = m.group(1), m.group(2), m.group(3)
        want = _norm(f"fn {name}{params} -> {ret};")
        if want not in body:
            raise AnchorLost(f"trait Queryable: signature of `{name}` differs from contracts/queryable_trait.rs")
        log.append(f"E6 Queryable::{name} signature matches /repo")
    for m in re.finditer(r"//@sig-provided\s*\n\s*fn\s+(\w+)\s*(\([^)]*\))\s*->\s*\(r:\s*(.*?)\)\s*\n", text):
        name, params, ret = m.group(1), m.group(2), m.group(3)
        want = _norm(f"fn {name}{params} -> {ret} {{")
        if want not in body:
            raise AnchorLost(f"trait Queryable: signature of the provided method `{name}` differs from contracts/queryable_trait.rs")
        log.append(f"E6 Queryable::{name} (provided method) signature matches /repo; its default body is dropped")
    return text


# ----------------------------------------------------------------------------------------
MARK = "/*@{}*/"


def _clauses(kind: str, items: list, unit: str, scope: str, indent: str) -> str:
    if not items:
        return ""
    lines = [f"{indent}{kind}"]
    for name, text in items:
        text = " ".join(text.split())
        lines.append(f"{indent}    {text}, {MARK.format(unit + '.' + scope + '.' + name)}")
    return "\n".join(lines) + "\n"


def _fn_of(unit: Unit, repo: Repo) -> FnItem:
    src = strip_comments(repo.read(unit.file))
    return find_fn(src, unit.fn, unit.impl)


def _params_e1(fn: FnItem, log: list, uname: str) -> tuple[str, str]:
    """rule E1 on fn parameters: returns (param list text, let-lines).
    Rule E1b (alpha-renaming): a simple parameter whose name differs from the name the contract was written against keeps the
    contract's name in the signature and is re-bound under its current name at the top of the body (one simultaneous let)."""
    outs, lets = [], []
    plist = split_top(fn.params)
    exp = expected_names().get(uname, {}).get("params")
    ren_a, ren_e = [], []
    if exp is not None and len(exp) != len(plist):
        exp = None
    for k, p in enumerate(plist):
        pat, ty = split_param(p)
        if is_simple_pat(pat) or not ty:
            e = exp[k] if exp else None
            if e and ty and is_simple_pat(e) and _bare(e) != _bare(pat) and "self" not in pat:
                outs.append(f"{_bare(e)}: {' '.join(ty.split())}")
                ren_a.append(" ".join(pat.split()))
                ren_e.append(_bare(e))
                log.append(f"E1b {uname}: parameter `{_bare(pat)}` is `{_bare(e)}` in the contract: signature keeps `{_bare(e)}`, body re-binds it as `{_bare(pat)}`")
                continue
            outs.append(" ".join(p.split()))
        else:
            outs.append(f"__p{k}: {' '.join(ty.split())}")
            lets.append(f"let {' '.join(pat.split())} = __p{k};")
            log.append(f"E1 {uname}: parameter pattern `{' '.join(pat.split())}` -> __p{k} + let")
    if ren_a:
        lets.insert(0, f"let ({', '.join(ren_a)},) = ({', '.join(ren_e)},);")
    return ", ".join(outs), "\n        ".join(lets)


def render_header(unit: Unit, fn: FnItem, params: str, with_contract: bool) -> str:
    vis = "pub " if fn.vis else ""   # pub(crate) -> pub: single-file crate
    ret = f" -> ({unit.ret_name}: {' '.join(fn.ret.split())})" if fn.ret else ""
    hdr = f"    {vis}fn {fn.name}{fn.generics}({params}){ret}\n"
    if fn.where:
        hdr += f"        where {' '.join(fn.where.split())},\n"
    if with_contract and not unit.trait_method:
        hdr += _clauses("requires", unit.requires, unit.name, "pre", "        ")
        hdr += _clauses("ensures", unit.ensures, unit.name, "post", "        ")
    return hdr


def _anchor_sig(text: str) -> list:
    """the name-independent part of an anchor: called names, path segments and method/field names (local variable names dropped)"""
    toks = [t for t in tokenize(text)]
    out = []
    for i, t in enumerate(toks):
        if t.kind != "ident":
            continue
        nxt = toks[i + 1].text if i + 1 < len(toks) else ""
        prv = toks[i - 1].text if i else ""
        if nxt == "(" or nxt == ":" and i + 2 < len(toks) and toks[i + 2].text == ":" or prv == "." or (prv == ":" and i >= 2 and toks[i - 2].text == ":"):
            out.append(t.text)
    return out


def _anchor_in(expect: str, closure_text: str) -> bool:
    """an anchor still holds after a renaming of local variables if its called names / paths occur, in order and contiguously, in the closure"""
    a, b = _anchor_sig(expect), _anchor_sig(closure_text)
    if not a:
        return False
    return any(b[i:i + len(a)] == a for i in range(len(b) - len(a) + 1))


def _annotate_closures(body: str, unit: Unit, log: list) -> str:
    n_expected = len(find_closures(body))
    # which closure of the body each closure contract belongs to: the k-th one if it still carries the anchor text; otherwise (closures were
    # added or removed around it) the ONLY closure that carries it
    cls0 = find_closures(body)
    def carries(c, ann):
        t = body[c.start:c.end]
        return not ann.expect or _norm(ann.expect) in _norm(t) or _anchor_in(ann.expect, t)
    where: dict = {}
    for k in sorted(unit.closures):
        ann = unit.closures[k]
        if k <= len(cls0) and carries(cls0[k - 1], ann) and (k - 1) not in where.values():
            where[k] = k - 1
            continue
        if not ann.expect:
            raise AnchorLost(f"{unit.name}: closure #{k} not found ({len(cls0)} closures)")
        cand = [i for i, c in enumerate(cls0) if carries(c, ann) and i not in where.values()]
        # nested closures: an outer closure contains the text of the inner one; prefer the innermost (shortest) carrier
        if len(cand) > 1:
            inner = [i for i in cand if not any(j != i and cls0[i].start <= cls0[j].start and cls0[j].end <= cls0[i].end for j in cand)]
            cand = inner if len(inner) == 1 else cand
        if len(cand) != 1:
            if k > len(cls0):
                raise AnchorLost(f"{unit.name}: closure #{k} not found ({len(cls0)} closures)")
            raise AnchorLost(f"{unit.name}: closure #{k} no longer contains `{ann.expect}`")
        where[k] = cand[0]
        log.append(f"E2 {unit.name}: contract of closure #{k} re-anchored by its text to closure #{cand[0] + 1} of this tree")
    if sorted(where.values()) != [where[k] for k in sorted(where)]:
        raise AnchorLost(f"{unit.name}: closure contracts no longer appear in their original order")
    for k in sorted(unit.closures, reverse=True):
        ann: Cl = unit.closures[k]
        cls = find_closures(body)
        c = cls[where[k]]
        ps, lets = [], []
        cexp = expected_names().get(unit.name, {}).get("closures", {}).get(str(k))
        if cexp is not None and len(cexp) != len(c.params):
            cexp = None
        ren_a, ren_e = [], []
        for i, (pat, ty) in enumerate(c.params):
            if not ty:
                if not ann.types or i >= len(ann.types):
                    raise AnchorLost(f"{unit.name}: closure #{k} parameter {i} needs a type")
                ty = ann.types[i]
            elif ann.types and i < len(ann.types) and ann.types[i] and _norm(ann.types[i]) != _norm(ty):
                raise AnchorLost(f"{unit.name}: closure #{k} parameter {i} type changed: {ty}")
            if is_simple_pat(pat):
                e = cexp[i] if cexp else None
                if e and is_simple_pat(e) and _bare(e) != _bare(pat):
                    ps.append(f"{_bare(e)}: {ty}")
                    ren_a.append(pat)
                    ren_e.append(_bare(e))
                    log.append(f"E1b {unit.name}: closure #{k} parameter `{_bare(pat)}` is `{_bare(e)}` in the contract: re-bound in the body")
                else:
                    ps.append(f"{pat}: {ty}")
            else:
                nm = f"__c{k}_{i}"
                ps.append(f"{nm}: {ty}")
                lets.append(f"let {pat} = {nm};")
                log.append(f"E1 {unit.name}: closure #{k} parameter pattern `{pat}` -> {nm} + let")
        ret = ann.ret or (f"({c.ret})" if False else "")
        if not ret and c.ret:
            ret = c.ret
        if c.ret and ann.ret:
            # the source has an explicit return type: the annotation must agree with it
            m = re.match(r"\(\s*\w+\s*:\s*(.*)\)\s*$", ann.ret, flags=re.S)
            if not m or _norm(m.group(1)) != _norm(c.ret):
                raise AnchorLost(f"{unit.name}: closure #{k} return type changed: {c.ret}")
        head = ("move " if False else "") + "|" + ", ".join(ps) + "|" + (f" -> {ret}" if ret else "")
        txt = head + "\n"
        txt += _clauses("requires", ann.requires, unit.name, f"cl{k}.pre", "            ")
        txt += _clauses("ensures", ann.ensures, unit.name, f"cl{k}.post", "            ")
        if ren_a:
            lets.insert(0, f"let ({', '.join(ren_a)},) = ({', '.join(ren_e)},);")
        inner = " ".join(lets) + ("\n" + ann.pre_body if ann.pre_body else "")
        txt += "        {" + (" " + inner if inner else "") + "\n" + c.body.strip("\n") + "\n        }"
        body = body[:c.start] + txt + body[c.end:]
        log.append(f"E2 {unit.name}: closure #{k} annotated ({len(ann.requires)} requires, {len(ann.ensures)} ensures)")
    if len(find_closures(body)) != n_expected:
        raise AnchorLost(f"{unit.name}: closure count changed while annotating")
    return body


def _annotate_loops(body: str, unit: Unit, log: list) -> str:
    if not unit.loops:
        # a loop the store has no contract for (the body was restructured: an iterator chain became a loop) cannot be verified
        n_loops = sum(1 for t in tokenize(body) if t.kind == "ident" and t.text in ("while", "loop", "for"))
        if n_loops:
            raise AnchorLost(f"{unit.name}: {n_loops} loop(s) in the body, no loop contract in the store")
        return body
    for k in sorted(unit.loops, reverse=True):
        toks = tokenize(body)
        whiles = [i for i, t in enumerate(toks) if t.kind == "ident" and t.text == "while"]
        if k > len(whiles):
            raise AnchorLost(f"{unit.name}: loop #{k} not found")
        i = whiles[k - 1]
        j = i + 1
        while toks[j].text != "{":
            if toks[j].text in "([":
                j = close_of(toks, j)
            j += 1
        lp: Loop = unit.loops[k]
        ins = "\n" + _clauses("invariant", lp.invariant, unit.name, f"loop{k}.inv", "                ")
        if lp.decreases:
            ins += f"                decreases {lp.decreases}, {MARK.format(unit.name + f'.loop{k}.decreases')}\n"
        body = body[:toks[j].start] + ins + "                " + body[toks[j].start:]
        log.append(f"E2 {unit.name}: loop #{k} invariant ({len(lp.invariant)} clauses) + decreases")
    n_while = sum(1 for t in tokenize(body) if t.kind == "ident" and t.text in ("while", "loop", "for"))
    if n_while != len(unit.loops):
        raise AnchorLost(f"{unit.name}: {n_while} loops in the body, {len(unit.loops)} loop contracts")
    return body


def _rewrite_pattern(frm: str, to: str):
    parts = re.split(r"@(\d)", frm)
    pat, seen = "", set()
    for i, part in enumerate(parts):
        if i % 2 == 0:
            if part.strip():
                piece = r"\s*".join(re.escape(t.text) for t in tokenize(part))
                pat += (r"\s*" if pat else "") + piece
        else:
            pat += (r"\s*" if pat else "") + (f"(?P=i{part})" if part in seen else f"(?P<i{part}>\\b[A-Za-z_]\\w*\\b)")
            seen.add(part)
    def repl(m):
        return re.sub(r"@(\d)", lambda k: m.group("i" + k.group(1)), to)
    return pat, repl


def render_real(unit: Unit, repo: Repo, log: list) -> str:
    fn = _fn_of(unit, repo)
    params, lets = _params_e1(fn, log, unit.name)
    body = rewrite_e3(fn.body, unit.name, log)
    for entry in unit.shapes:
        rule, count = entry[0], entry[1]
        tpl, rep = SHAPES[rule]
        if len(entry) > 2:
            rep = entry[2]   # rule E8: the helper call is wrapped so that the closure and result can be named in a proof block
        body, n = apply_template(body, tpl, rep)
        # the count in the store is what the unchanged tree has; a different count is not an error: every match is
        # rewritten, and whatever the rules do not cover is rejected by Verus itself (-> undecided, never an alarm)
        log.append(f"E4 {unit.name}: shape {rule} `{tpl}` -> `{rep}` x{n}" + ("" if n == count else f" (the store expects {count})"))
    for label, frm, to, count in unit.text_rewrites:
        # whitespace-insensitive exact text; `@1`, `@2`, .. stand for one identifier each (a local name the rule does not depend on)
        pat, to_re = _rewrite_pattern(frm, to)
        body, n = re.subn(pat, to_re, body)
        if count is not None and n != count and not (count == "+" and n >= 1):
            raise AnchorLost(f"{unit.name}: rewrite {label} `{frm}` matched {n} times, expected {count}")
        log.append(f"{label} {unit.name}: `{frm}` -> `{to}` x{n}")
    body = _annotate_closures(body, unit, log)
    body = _annotate_loops(body, unit, log)
    for after, proof in unit.hints:
        pat = r"\s*".join(re.escape(t.text) for t in tokenize(after))
        body, n = re.subn(pat, lambda m: m.group(0) + "\n" + proof + "\n", body)
        if n != 1:
            raise AnchorLost(f"{unit.name}: hint anchor `{after}` matched {n} times")
        log.append(f"E2 {unit.name}: proof hint after `{after}`")
    pre = ""
    if lets:
        pre += "        " + lets + "\n"
    if unit.body_prefix:
        pre += "        " + unit.body_prefix.strip() + "\n"
    if unit.tail_proof:
        body = "        let __r = {" + body + "};\n        proof { " + unit.tail_proof + " }\n        __r\n"
        log.append(f"E7 {unit.name}: tail expression bound to __r for a proof block")
    attrs = "".join(f"    {a}\n" for a in unit.attrs)
    return attrs + render_header(unit, fn, params, True) + "    {\n" + pre + body.rstrip() + "\n    }\n"


def render_stub(unit: Unit, repo: Repo, log: list) -> str:
    if unit.sig_override is not None:
        return unit.sig_override
    fn = _fn_of(unit, repo)
    params, _ = _params_e1(fn, [], unit.name)
    return "    #[verifier::external_body]\n" + render_header(unit, fn, params, True) + "    { unimplemented!() }\n"


VALUE_IMPL = "impl Queryable for Value"

PRELUDE = """// GENERATED by /verif/vx — do not edit.  Unit under proof: {unit}
#![allow(unused_imports, dead_code, unused_variables, non_snake_case)]
use vstd::prelude::*;
use vstd::multiset::Multiset;
use std::cmp::{{max, min, Ordering}};
use std::borrow::Cow;
verus! {{
global size_of usize == 8;
pub type QueryPath = String;
"""


def build_world(target: str | None, units: dict[str, Unit], repo: Repo, mutate=None, exclude=()) -> tuple[str, dict, list]:
    """returns (file text, {line number -> clause name}, log).  target=None: all stubs (spec sanity).
    `exclude`: units whose stub is left out (their text does not compile against this tree and the target does not need them)."""
    log: list = []
    parts = [PRELUDE.format(unit=target)]
    parts.append(open(os.path.join(CONTRACTS, "spec_arith.rs")).read())
    parts.append(check_trait_sigs(repo, log))
    parts.append(extract_types(repo, log))
    for f in ("spec_nodes.rs", "spec_rfc.rs", "helpers.rs", "query_trait.rs", "spec_desc.rs", "spec_multiset.rs"):
        p = os.path.join(CONTRACTS, f)
        if os.path.exists(p):
            parts.append(open(p).read())
    qsrc = _norm(strip_comments(repo.read("src/query.rs")))
    if _norm("pub trait Query { fn process<'a, T: Queryable>(&self, state: State<'a, T>) -> State<'a, T>; }") not in qsrc:
        raise AnchorLost("trait Query: declaration differs from contracts/query_trait.rs")
    log.append("E6 Query::process signature matches /repo")
    # group by impl header, keep store order
    groups: dict[str, list[Unit]] = {}
    for u in sorted(units.values(), key=lambda u: (u.order, u.name)):
        groups.setdefault(u.impl or "", []).append(u)
    tgt_impl = units[target].impl if target in units else None
    for impl, us in groups.items():
        if impl == VALUE_IMPL:
            # units of `impl Queryable for Value` live in their own world flavour: serde_json::Value is declared opaque
            # (contracts/value_world.rs) only when one of them is the unit under proof; no other unit calls them by name
            # (generic code reaches Queryable::extension_custom through the trait-level contract)
            if tgt_impl != VALUE_IMPL:
                continue
            vw = open(os.path.join(CONTRACTS, "value_world.rs")).read()
            inner = []
            for u in us:
                if u.name == target:
                    txt = render_real(u, repo, log)
                    if mutate:
                        txt = mutate(txt)
                    inner.append(txt)
            parts.append(vw.replace("/*@@VALUE_UNITS*/", "\n".join(inner)))
            log.append("E12 serde_json::Value declared opaque (contracts/value_world.rs): its Clone, PartialEq, as_array, From<bool>, Null are assumed contracts over uninterpreted spec functions")
            continue
        if impl:
            parts.append(f"{impl} {{")
            extras = []
            for u in us:
                if u.impl_extra and u.impl_extra not in extras:
                    extras.append(u.impl_extra)
            parts.extend(extras)
        for u in us:
            if u.name == target:
                if u.status != "proved":
                    raise RuntimeError(f"{u.name} is an assumed unit")
                txt = render_real(u, repo, log)
                if mutate:
                    txt = mutate(txt)
                parts.append(txt)
            elif u.name in exclude:
                log.append(f"stub of {u.name} left out of this world: it does not compile against this tree and the unit under proof does not call it")
            else:
                try:
                    parts.append(f"/*@@stub {u.name}*/\n" + render_stub(u, repo, log) + f"/*@@end {u.name}*/")
                except AnchorLost as e:
                    # the function no longer exists in /repo: no stub; a world that calls it will not compile (-> undecided)
                    log.append(f"stub skipped, anchor lost: {e}")
        if impl:
            parts.append("}")
    parts.append("} // verus!\nfn main() {}\n")
    text = "\n".join(parts)
    cmap = {}
    for i, line in enumerate(text.split("\n"), 1):
        for m in re.finditer(r"/\*@([^*]+)\*/", line):
            cmap[i] = m.group(1)
    return text, cmap, log
