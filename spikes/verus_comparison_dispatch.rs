use vstd::prelude::*;
verus! {
global size_of usize == 8;
pub type QueryPath = String;

pub trait Queryable: Sized {
    fn as_array(&self) -> Option<&Vec<Self>>;
    spec fn from_bool_spec(b: bool) -> Self;
}

pub struct Pointer<'a, T: Queryable> { pub inner: &'a T, pub path: QueryPath }
pub enum Data<'a, T: Queryable> { Ref(Pointer<'a, T>), Refs(Vec<Pointer<'a, T>>), Value(T), Nothing }
pub struct State<'a, T: Queryable> { pub data: Data<'a, T>, pub root: &'a T }

impl<'a, T: Queryable> Clone for State<'a, T> {
    #[verifier::external_body]
    fn clone(&self) -> (r: Self) ensures r == *self { unimplemented!() }
}

impl<'a, T: Queryable> State<'a, T> {
    #[verifier::external_body]
    pub fn bool(b: bool, root: &T) -> (r: State<T>)
        ensures r.root == root, r.data == Data::<T>::Value(T::from_bool_spec(b)),
    { unimplemented!() }
}

pub trait Query {
    spec fn process_spec<'a, T: Queryable>(&self, state: State<'a, T>) -> State<'a, T>;
    fn process<'a, T: Queryable>(&self, state: State<'a, T>) -> (r: State<'a, T>)
        ensures r == self.process_spec(state);
}

pub enum Literal { Int(i64), Null }
pub enum Comparable { Literal(Literal) }

pub enum Comparison {
    Eq(Comparable, Comparable),
    Ne(Comparable, Comparable),
    Gt(Comparable, Comparable),
    Gte(Comparable, Comparable),
    Lt(Comparable, Comparable),
    Lte(Comparable, Comparable),
}

impl Comparison {
    pub fn vals(&self) -> (r: (&Comparable, &Comparable))
        ensures r == self.vals_spec()
    {
        match self {
            Comparison::Eq(left, right) => (left, right),
            Comparison::Ne(left, right) => (left, right),
            Comparison::Gt(left, right) => (left, right),
            Comparison::Gte(left, right) => (left, right),
            Comparison::Lt(left, right) => (left, right),
            Comparison::Lte(left, right) => (left, right),
        }
    }
    pub open spec fn vals_spec(&self) -> (&Comparable, &Comparable) {
        match self {
            Comparison::Eq(left, right) => (left, right),
            Comparison::Ne(left, right) => (left, right),
            Comparison::Gt(left, right) => (left, right),
            Comparison::Gte(left, right) => (left, right),
            Comparison::Lt(left, right) => (left, right),
            Comparison::Lte(left, right) => (left, right),
        }
    }
}

pub uninterp spec fn comparable_spec<'a, T: Queryable>(c: &Comparable, state: State<'a, T>) -> State<'a, T>;
impl Query for Comparable {
    open spec fn process_spec<'a, T: Queryable>(&self, state: State<'a, T>) -> State<'a, T> { comparable_spec(self, state) }
    #[verifier::external_body]
    fn process<'a, T: Queryable>(&self, step: State<'a, T>) -> (r: State<'a, T>) { unimplemented!() }
}

pub uninterp spec fn eq_spec<'a, T: Queryable>(l: State<'a, T>, r: State<'a, T>) -> bool;
pub uninterp spec fn lt_spec<'a, T: Queryable>(l: State<'a, T>, r: State<'a, T>) -> bool;

#[verifier::external_body]
fn lt<'a, T: Queryable>(lhs: State<'a, T>, rhs: State<'a, T>) -> (b: bool) ensures b == lt_spec(lhs, rhs) { unimplemented!() }
#[verifier::external_body]
fn eq<'a, T: Queryable>(lhs_state: State<'a, T>, rhs_state: State<'a, T>) -> (b: bool) ensures b == eq_spec(lhs_state, rhs_state) { unimplemented!() }

pub open spec fn rfc_cmp(c: &Comparison, e: bool, l: bool, g: bool) -> bool {
    match c {
        Comparison::Eq(..) => e,
        Comparison::Ne(..) => !e,
        Comparison::Lt(..) => l,
        Comparison::Gt(..) => g,
        Comparison::Lte(..) => l || e,
        Comparison::Gte(..) => g || e,
    }
}

impl Query for Comparison {
    open spec fn process_spec<'a, T: Queryable>(&self, state: State<'a, T>) -> State<'a, T> {
        let l = comparable_spec(self.vals_spec().0, state);
        let r = comparable_spec(self.vals_spec().1, state);
        State { root: state.root, data: Data::Value(T::from_bool_spec(rfc_cmp(self, eq_spec(l, r), lt_spec(l, r), lt_spec(r, l)))) }
    }
    fn process<'a, T: Queryable>(&self, state: State<'a, T>) -> State<'a, T> {
        let root = state.root;
        let (lhs, rhs) = self.vals();
        let lhs = lhs.process(state.clone());
        let rhs = rhs.process(state);
        match self {
            Comparison::Eq(..) => State::bool(eq(lhs, rhs), root),
            Comparison::Ne(..) => State::bool(!eq(lhs, rhs), root),
            Comparison::Gt(..) => State::bool(lt(rhs, lhs), root),
            Comparison::Gte(..) => State::bool(lt(rhs.clone(), lhs.clone()) || eq(lhs, rhs), root),
            Comparison::Lt(..) => State::bool(lt(lhs, rhs), root),
            Comparison::Lte(..) => State::bool(lt(lhs.clone(), rhs.clone()) || eq(lhs, rhs), root),
        }
    }
}
}
fn main() {}
