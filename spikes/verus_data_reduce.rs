use vstd::prelude::*;
verus! {
global size_of usize == 8;
pub type QueryPath = String;
pub trait Queryable: Sized { fn as_array(&self) -> Option<&Vec<Self>>; }
pub struct Pointer<'a, T: Queryable> { pub inner: &'a T, pub path: QueryPath }
pub enum Data<'a, T: Queryable> { Ref(Pointer<'a, T>), Refs(Vec<Pointer<'a, T>>), Value(T), Nothing }

// ---- assumed std contracts for iterator shapes (rewrite targets) ----
#[verifier::external_body]
pub fn vf_chain_collect<A>(x: Vec<A>, y: Vec<A>) -> (r: Vec<A>)
    ensures r@ == x@ + y@,
{ x.into_iter().chain(y).collect() }

pub open spec fn is_nodes<'a, T: Queryable>(d: Data<'a, T>) -> bool { d is Ref || d is Refs || d is Nothing }
pub open spec fn nodes<'a, T: Queryable>(d: Data<'a, T>) -> Seq<Pointer<'a, T>> {
    match d { Data::Ref(p) => seq![p], Data::Refs(v) => v@, _ => Seq::empty() }
}

impl<'a, T: Queryable> Data<'a, T> {
    pub fn reduce(self, other: Data<'a, T>) -> (r: Data<'a, T>)
        ensures
            is_nodes(self) && is_nodes(other) ==> is_nodes(r) && nodes(r) == nodes(self) + nodes(other),
            !(is_nodes(self) && is_nodes(other)) ==> r is Nothing,
            // shape: Nothing only when both empty-Nothing ; single Ref preserved
    {
        match (self, other) {
            (Data::Ref(data), Data::Ref(data2)) => Data::Refs(vec![data, data2]),
            (Data::Ref(data), Data::Refs(data_vec)) => {
                Data::Refs(vf_chain_collect(vec![data], data_vec))
            }
            (Data::Refs(data_vec), Data::Ref(data)) => {
                Data::Refs(vf_chain_collect(data_vec, vec![data]))
            }
            (Data::Refs(data_vec), Data::Refs(data_vec2)) => {
                Data::Refs(vf_chain_collect(data_vec, data_vec2))
            }
            (d @ (Data::Ref(_) | Data::Refs(..)), Data::Nothing) => d,
            (Data::Nothing, d @ (Data::Ref(_) | Data::Refs(..))) => d,
            _ => Data::Nothing,
        }
    }
}
}
fn main() {}
