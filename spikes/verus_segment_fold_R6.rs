use vstd::prelude::*;
verus! {
pub struct St { pub v: Vec<u64> }
pub struct Segment { pub k: u64 }

pub uninterp spec fn seg_rel(seg: Segment, st: St, r: St) -> bool;

pub trait Query {
    spec fn process_rel(&self, state: St, r: St) -> bool;
    fn process(&self, state: St) -> (r: St) ensures self.process_rel(state, r);
}
impl Query for Segment {
    open spec fn process_rel(&self, state: St, r: St) -> bool { seg_rel(*self, state, r) }
    #[verifier::external_body]
    fn process(&self, state: St) -> (r: St) { unimplemented!() }
}

pub open spec fn segs_rel(segs: Seq<Segment>, st: St, r: St) -> bool
    decreases segs.len()
{
    if segs.len() == 0 { r == st }
    else { exists|mid: St| segs_rel(segs.drop_last(), st, mid) && #[trigger] seg_rel(segs.last(), mid, r) }
}

// R6: X.iter().fold(init, F)
pub open spec fn fold_rel<A, B, F: Fn(B, &A) -> B>(f: F, xs: Seq<A>, init: B, r: B) -> bool
    decreases xs.len()
{
    if xs.len() == 0 { r == init }
    else { exists|mid: B| fold_rel(f, xs.drop_last(), init, mid) && #[trigger] f.ensures((mid, &xs.last()), r) }
}
#[verifier::external_body]
pub fn vf_iter_fold<A, B, F: Fn(B, &A) -> B>(x: &Vec<A>, init: B, f: F) -> (r: B)
    requires forall|b: B, a: &A| f.requires((b, a)),
    ensures fold_rel(f, x@, init, r),
{ x.iter().fold(init, f) }

pub open spec fn fpins<F: Fn(St, &Segment) -> St>(f: F) -> bool {
    forall|b: St, a: &Segment, o: St| #[trigger] f.ensures((b, a), o) ==> seg_rel(*a, b, o)
}
pub broadcast proof fn lemma_fold_segs<F: Fn(St, &Segment) -> St>(f: F, xs: Seq<Segment>, init: St, r: St)
    requires fpins(f), #[trigger] fold_rel(f, xs, init, r),
    ensures segs_rel(xs, init, r),
    decreases xs.len()
{
    if xs.len() != 0 {
        let mid = choose|mid: St| fold_rel(f, xs.drop_last(), init, mid) && #[trigger] f.ensures((mid, &xs.last()), r);
        lemma_fold_segs(f, xs.drop_last(), init, mid);
    }
}

impl Query for Vec<Segment> {
    open spec fn process_rel(&self, state: St, r: St) -> bool { segs_rel(self@, state, r) }
    fn process(&self, state: St) -> (r: St) {
        let ghost st0 = state;
        let f = |next: St, segment: &Segment| -> (o: St)
            ensures seg_rel(*segment, next, o)
            { segment.process(next) };
        let r = vf_iter_fold(self, state, f);
        proof { lemma_fold_segs(f, self@, st0, r); }
        r
    }
}
}
fn main() {}
