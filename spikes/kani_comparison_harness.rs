#[cfg(kani)]
mod verif_kani {
    use super::*;
    use crate::query::verif_k::*;

    fn any_scalar() -> S {
        let c: u8 = kani::any();
        match c % 4 { 0 => S::Null, 1 => S::Bool(kani::any()), 2 => S::Int(kani::any()), _ => { let f: f64 = kani::any(); kani::assume(f.is_finite()); S::Float(f) } }
    }
    fn num(k: &S) -> Option<f64> { match k { S::Int(i) => Some(*i as f64), S::Float(f) => Some(*f), _ => None } }

    // eq on two numbers must be mathematical equality (ints restricted to the I-JSON range so that i64 -> f64 is exact)
    #[kani::proof]
    #[kani::unwind(3)]
    fn eq_numbers_exact() {
        let root = S::Null;
        let a = any_scalar(); let b = any_scalar();
        if let S::Int(i) = a { kani::assume(i >= -9007199254740991 && i <= 9007199254740991); }
        if let S::Int(i) = b { kani::assume(i >= -9007199254740991 && i <= 9007199254740991); }
        let r = eq(State::data(&root, Data::Value(a)), State::data(&root, Data::Value(b)));
        match (num(&a), num(&b)) {
            (Some(x), Some(y)) => assert!(r == (x == y)),
            (None, None) => assert!(r == (a == b)),
            _ => assert!(!r),
        }
    }

    // derived operators
    #[kani::proof]
    #[kani::unwind(3)]
    fn derived_ops() {
        let root = S::Null;
        let a = any_scalar(); let b = any_scalar();
        let st = |k: S| State::data(&root, Data::Value(k));
        let e = eq(st(a), st(b)); let l = lt(st(a), st(b)); let g = lt(st(b), st(a));
        if num(&a).is_some() && num(&b).is_some() { assert!((e as u8) + (l as u8) + (g as u8) == 1); }
    }
}
