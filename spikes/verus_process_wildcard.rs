use vstd::prelude::*;
verus! {
global size_of usize == 8;
pub type QueryPath = String;
pub trait Queryable: Sized {
    spec fn as_array_spec(&self) -> Option<&Vec<Self>>;
    spec fn as_object_spec(&self) -> Option<Seq<(&String, &Self)>>;
    fn as_array(&self) -> (r: Option<&Vec<Self>>) ensures r == self.as_array_spec();
    fn as_object(&self) -> (r: Option<Vec<(&String, &Self)>>)
        ensures match (r, self.as_object_spec()) { (Some(v), Some(s)) => v@ == s, (None, None) => true, _ => false };
}
pub struct Pointer<'a, T: Queryable> { pub inner: &'a T, pub path: QueryPath }
pub enum Data<'a, T: Queryable> { Ref(Pointer<'a, T>), Refs(Vec<Pointer<'a, T>>), Value(T), Nothing }

pub uninterp spec fn idx_path(path: Seq<char>, index: usize) -> Seq<char>;
pub uninterp spec fn key_path(path: Seq<char>, key: Seq<char>) -> Seq<char>;

impl<'a, T: Queryable> Pointer<'a, T> {
    #[verifier::external_body]
    pub fn idx(inner: &'a T, path: QueryPath, index: usize) -> (r: Self)
        ensures r.inner == inner, r.path@ == idx_path(path@, index),
    { unimplemented!() }
    #[verifier::external_body]
    pub fn key(inner: &'a T, path: QueryPath, key: &str) -> (r: Self)
        ensures r.inner == inner, r.path@ == key_path(path@, key@),
    { unimplemented!() }
}
impl<'a, T: Queryable> Data<'a, T> {
    pub fn new_refs(data: Vec<Pointer<'a, T>>) -> (r: Data<'a, T>) ensures r == Data::Refs(data) { Data::Refs(data) }
}

// R2: X.iter().enumerate().map(F).collect()
#[verifier::external_body]
pub fn vf_enumerate_map_collect<'x, A, B, F: Fn((usize, &'x A)) -> B>(x: &'x Vec<A>, f: F) -> (r: Vec<B>)
    requires forall|i: usize, a: &'x A| f.requires(((i, a),)),
    ensures r@.len() == x@.len(), forall|i: int| 0 <= i < x@.len() ==> f.ensures(((i as usize, &x@[i]),), #[trigger] r@[i]),
{ x.iter().enumerate().map(f).collect() }

// R2': X.into_iter().map(F).collect()
#[verifier::external_body]
pub fn vf_into_map_collect<A, B, F: Fn(A) -> B>(x: Vec<A>, f: F) -> (r: Vec<B>)
    requires forall|a: A| f.requires((a,)),
    ensures r@.len() == x@.len(), forall|i: int| 0 <= i < x@.len() ==> f.ensures((x@[i],), #[trigger] r@[i]),
{ x.into_iter().map(f).collect() }

pub open spec fn wildcard_spec<'a, T: Queryable>(p: Pointer<'a, T>, r: Data<'a, T>) -> bool {
    match (p.inner.as_array_spec(), p.inner.as_object_spec()) {
        (Some(a), _) => if a@.len() == 0 { r is Nothing } else {
            r matches Data::Refs(v) && v@.len() == a@.len()
            && forall|i: int| 0 <= i < a@.len() ==> (#[trigger] v@[i]).inner == &a@[i] && v@[i].path@ == idx_path(p.path@, i as usize) },
        (None, Some(o)) => if o.len() == 0 { r is Nothing } else {
            r matches Data::Refs(v) && v@.len() == o.len()
            && forall|i: int| 0 <= i < o.len() ==> (#[trigger] v@[i]).inner == o[i].1 && v@[i].path@ == key_path(p.path@, o[i].0@) },
        (None, None) => r is Nothing,
    }
}

fn process_wildcard<'a, T: Queryable>(
    __p0: Pointer<'a, T>,
) -> (r: Data<'a, T>)
    ensures wildcard_spec(__p0, r),
{
    let Pointer {
        inner: pointer,
        path,
    } = __p0;
    if let Some(array) = pointer.as_array() {
        if array.is_empty() {
            Data::Nothing
        } else {
            Data::new_refs(
                vf_enumerate_map_collect(array, |__c0: (usize, &'a T)| -> (q: Pointer<'a, T>)
                    ensures q.inner == __c0.1, q.path@ == idx_path(path@, __c0.0),
                    { let (i, elem) = __c0; Pointer::idx(elem, path.clone(), i) }),
            )
        }
    } else if let Some(object) = pointer.as_object() {
        if object.is_empty() {
            Data::Nothing
        } else {
            Data::new_refs(
                vf_into_map_collect(object, |__c0: (&'a String, &'a T)| -> (q: Pointer<'a, T>)
                    ensures q.inner == __c0.1, q.path@ == key_path(path@, __c0.0@),
                    { let (key, value) = __c0; Pointer::key(value, path.clone(), key) }),
            )
        }
    } else {
        Data::Nothing
    }
}
}
fn main() {}
