use vstd::prelude::*;
verus! {
global size_of usize == 8;
pub type QueryPath = String;
pub trait Queryable: Sized {
    spec fn as_array_spec(&self) -> Option<&Vec<Self>>;
    fn as_array(&self) -> (r: Option<&Vec<Self>>) ensures r == self.as_array_spec();
}
pub struct Pointer<'a, T: Queryable> { pub inner: &'a T, pub path: QueryPath }
pub enum Data<'a, T: Queryable> { Ref(Pointer<'a, T>), Refs(Vec<Pointer<'a, T>>), Value(T), Nothing }

pub open spec fn is_nodes<'a, T: Queryable>(d: Data<'a, T>) -> bool { d is Ref || d is Refs || d is Nothing }
pub open spec fn nodes<'a, T: Queryable>(d: Data<'a, T>) -> Seq<Pointer<'a, T>> {
    match d { Data::Ref(p) => seq![p], Data::Refs(v) => v@, _ => Seq::empty() }
}
pub open spec fn concat<A>(parts: Seq<Seq<A>>) -> Seq<A> decreases parts.len() {
    if parts.len() == 0 { Seq::empty() } else { concat(parts.drop_last()) + parts.last() }
}
pub open spec fn mapped<A, B>(x: Seq<A>, h: spec_fn(A) -> Seq<B>) -> Seq<B> { concat(x.map_values(h)) }

pub broadcast proof fn lemma_mapped_one<A, B>(a: A, h: spec_fn(A) -> Seq<B>)
    ensures #[trigger] mapped(seq![a], h) == h(a),
{
    let s = seq![a].map_values(h);
    assert(s.drop_last() =~= Seq::<Seq<B>>::empty());
    assert(concat(s.drop_last()) =~= Seq::<B>::empty());
    assert(concat(s) =~= h(a));
}
pub broadcast proof fn lemma_mapped_none<A, B>(h: spec_fn(A) -> Seq<B>)
    ensures #[trigger] mapped(Seq::<A>::empty(), h) == Seq::<B>::empty(),
{
    assert(Seq::<A>::empty().map_values(h) =~= Seq::<Seq<B>>::empty());
}

// R3 (assumed std contract, functional style)
pub open spec fn vpins<A, B, G: Fn(A) -> Vec<B>>(g: G, h: spec_fn(A) -> Seq<B>) -> bool {
    forall|a: A, o: Vec<B>| #[trigger] g.ensures((a,), o) ==> o@ == h(a)
}
#[verifier::external_body]
pub fn vf_flat_map_collect<A, B, G: Fn(A) -> Vec<B>>(x: Vec<A>, g: G) -> (r: Vec<B>)
    requires forall|a: A| g.requires((a,)),
    ensures forall|h: spec_fn(A) -> Seq<B>| vpins(g, h) ==> r@ == #[trigger] mapped(x@, h),
{ x.into_iter().flat_map(g).collect::<Vec<_>>() }

pub open spec fn pins<'a, T: Queryable + 'a, F: Fn(Pointer<'a, T>) -> Data<'a, T>>(f: F, h: spec_fn(Pointer<'a, T>) -> Seq<Pointer<'a, T>>) -> bool {
    forall|p: Pointer<'a, T>, o: Data<'a, T>| #[trigger] f.ensures((p,), o) ==> nodes(o) == h(p)
}
pub open spec fn nodey<'a, T: Queryable + 'a, F: Fn(Pointer<'a, T>) -> Data<'a, T>>(f: F) -> bool {
    forall|p: Pointer<'a, T>, o: Data<'a, T>| #[trigger] f.ensures((p,), o) ==> is_nodes(o)
}

impl<'a, T: Queryable> Data<'a, T> {
    pub fn flat_map<F>(self, f: F) -> (r: Data<'a, T>)
    where
        F: Fn(Pointer<'a, T>) -> Data<'a, T>,
        requires forall|p: Pointer<'a, T>| f.requires((p,)),
        ensures
            forall|h: spec_fn(Pointer<'a, T>) -> Seq<Pointer<'a, T>>| is_nodes(self) && pins(f, h) ==> nodes(r) == #[trigger] mapped(nodes(self), h),
            is_nodes(self) && nodey(f) ==> is_nodes(r),
            !is_nodes(self) ==> r is Nothing,
            self matches Data::Ref(p) ==> f.ensures((p,), r),
            self is Refs ==> r is Refs,
            self is Nothing ==> r is Nothing,
    {
        broadcast use lemma_mapped_one, lemma_mapped_none;
        match self {
            Data::Ref(data) => f(data),
            Data::Refs(data_vec) => Data::Refs(
                vf_flat_map_collect(data_vec, |data: Pointer<'a, T>| -> (o: Vec<Pointer<'a, T>>)
                    requires f.requires((data,)),
                    ensures exists|d: Data<'a, T>| #[trigger] f.ensures((data,), d) && o@ =~= nodes(d),
                {
                    match f(data) {
                        Data::Ref(data) => vec![data],
                        Data::Refs(data_vec) => data_vec,
                        _ => vec![],
                    }
                }),
            ),
            _ => Data::Nothing,
        }
    }
}
}
fn main() {}
