use vstd::prelude::*;
use std::cmp::{max, min};
verus! {

pub open spec fn ijson(v: int) -> bool { -9007199254740991 <= v <= 9007199254740991 }
pub open spec fn opt_ijson(o: Option<i64>) -> bool { match o { Some(v) => ijson(v as int), None => true } }

pub open spec fn norm_s(i: int, len: int) -> int { if i >= 0 { i } else { len + i } }
pub open spec fn smin(a: int, b: int) -> int { if a <= b { a } else { b } }
pub open spec fn smax(a: int, b: int) -> int { if a >= b { a } else { b } }

// RFC 9535 2.3.4.2.2 bounds
pub open spec fn rfc_lower(len: int, start: Option<i64>, end: Option<i64>, step: int) -> int {
    if step >= 0 {
        let s = match start { Some(v) => v as int, None => 0 };
        smin(smax(norm_s(s, len), 0), len)
    } else {
        let e = match end { Some(v) => v as int, None => -len - 1 };
        smin(smax(norm_s(e, len), -1), len - 1)
    }
}
pub open spec fn rfc_upper(len: int, start: Option<i64>, end: Option<i64>, step: int) -> int {
    if step >= 0 {
        let e = match end { Some(v) => v as int, None => len };
        smin(smax(norm_s(e, len), 0), len)
    } else {
        let s = match start { Some(v) => v as int, None => len - 1 };
        smin(smax(norm_s(s, len), -1), len - 1)
    }
}
// the RFC index sequence, as a recursive spec function
pub open spec fn rfc_seq_up(i: int, upper: int, step: int) -> Seq<int>
    decreases (if i < upper { upper - i } else { 0 })
{
    if step > 0 && i < upper { seq![i] + rfc_seq_up(i + step, upper, step) } else { Seq::empty() }
}
pub open spec fn rfc_seq_down(i: int, lower: int, step: int) -> Seq<int>
    decreases (if lower < i { i - lower } else { 0 })
{
    if step < 0 && lower < i { seq![i] + rfc_seq_down(i + step, lower, step) } else { Seq::empty() }
}
pub open spec fn rfc_slice(len: int, start: Option<i64>, end: Option<i64>, step: Option<i64>) -> Seq<int> {
    let st = match step { Some(v) => v as int, None => 1 };
    if st > 0 { rfc_seq_up(rfc_lower(len, start, end, st), rfc_upper(len, start, end, st), st) }
    else if st < 0 { rfc_seq_down(rfc_upper(len, start, end, st), rfc_lower(len, start, end, st), st) }
    else { Seq::empty() }
}



pub uninterp spec fn std_min<T>(a: T, b: T) -> T;
pub uninterp spec fn std_max<T>(a: T, b: T) -> T;
pub assume_specification<T: std::cmp::Ord> [std::cmp::min](a: T, b: T) -> (r: T)
    ensures r == std_min(a, b);
pub assume_specification<T: std::cmp::Ord> [std::cmp::max](a: T, b: T) -> (r: T)
    ensures r == std_max(a, b);
pub broadcast axiom fn axiom_std_min_i64(a: i64, b: i64)
    ensures #[trigger] std_min::<i64>(a, b) == smin(a as int, b as int);
pub broadcast axiom fn axiom_std_max_i64(a: i64, b: i64)
    ensures #[trigger] std_max::<i64>(a, b) == smax(a as int, b as int);

fn extract_elems<'a, T>(elements: &'a Vec<T>, start: &Option<i64>, end: &Option<i64>, step: &Option<i64>) -> (res: Vec<(&'a T, usize)>)
    requires opt_ijson(*start), opt_ijson(*end), opt_ijson(*step), elements.len() < 0x4000_0000_0000_0000,
    ensures res@.len() == rfc_slice(elements.len() as int, *start, *end, *step).len(),
        forall|k: int| 0 <= k < res@.len() ==> res@[k].1 as int == rfc_slice(elements.len() as int, *start, *end, *step)[k]
            && 0 <= res@[k].1 < elements.len() && res@[k].0 == &elements@[res@[k].1 as int],
{
        broadcast use axiom_std_min_i64, axiom_std_max_i64;
        let len = elements.len() as i64;
        let norm = |i: i64| -> (r: i64)
            requires -0x4000_0000_0000_0001 <= i <= 0x4000_0000_0000_0000, 0 <= len < 0x4000_0000_0000_0000,
            ensures r == norm_s(i as int, len as int),
        {
            if i >= 0 {
                i
            } else {
                len + i
            }
        };

        match step.unwrap_or(1) {
            e if e > 0 => {
                let n_start = norm(start.unwrap_or(0));
                let n_end = norm(end.unwrap_or(len));
                let lower = min(max(n_start, 0), len);
                let upper = min(max(n_end, 0), len);

                let mut idx = lower;
                let mut res = vec![];
                while idx < upper
                    invariant
                        e > 0, ijson(e as int), len == elements.len(), 0 <= len < 0x4000_0000_0000_0000,
                        0 <= lower <= len, 0 <= upper <= len, lower <= idx, idx < upper + e || idx == lower,
                        rfc_seq_up(lower as int, upper as int, e as int) == res@.map_values(|p: (&T, usize)| p.1 as int) + rfc_seq_up(idx as int, upper as int, e as int),
                        forall|k: int| 0 <= k < res@.len() ==> 0 <= #[trigger] res@[k].1 < elements.len() && res@[k].0 == &elements@[res@[k].1 as int],
                    decreases upper + e - idx,
                {
                    let i = idx as usize;
                    if let Some(elem) = elements.get(i) {
                        res.push((elem, i));
                    }
                    idx += e;
                }
                res
            }
            e if e < 0 => {
                let n_start = norm(start.unwrap_or(len - 1));
                let n_end = norm(end.unwrap_or(-len - 1));
                let lower = min(max(n_end, -1), len - 1);
                let upper = min(max(n_start, -1), len - 1);
                let mut idx = upper;
                let mut res = vec![];
                while lower < idx
                    invariant
                        e < 0, ijson(e as int), len == elements.len(), 0 <= len < 0x4000_0000_0000_0000,
                        -1 <= lower <= len - 1, -1 <= upper <= len - 1, idx <= upper, lower + e < idx || idx == upper,
                        rfc_seq_down(upper as int, lower as int, e as int) == res@.map_values(|p: (&T, usize)| p.1 as int) + rfc_seq_down(idx as int, lower as int, e as int),
                        forall|k: int| 0 <= k < res@.len() ==> 0 <= #[trigger] res@[k].1 < elements.len() && res@[k].0 == &elements@[res@[k].1 as int],
                    decreases idx - lower - e,
                {
                    let i = idx as usize;
                    if let Some(elem) = elements.get(i) {
                        res.push((elem, i));
                    }
                    idx += e;
                }
                res
            }
            _ => vec![],
        }
}
}
fn main() {}
