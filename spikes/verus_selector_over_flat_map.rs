use vstd::prelude::*;
verus! {
global size_of usize == 8;
pub type QueryPath = String;
pub trait Queryable: Sized {
    spec fn as_array_spec(&self) -> Option<&Vec<Self>>;
    fn as_array(&self) -> (r: Option<&Vec<Self>>) ensures r == self.as_array_spec();
}
pub struct Pointer<'a, T: Queryable> { pub inner: &'a T, pub path: QueryPath }
pub enum Data<'a, T: Queryable> { Ref(Pointer<'a, T>), Refs(Vec<Pointer<'a, T>>), Value(T), Nothing }
pub struct State<'a, T: Queryable> { pub data: Data<'a, T>, pub root: &'a T }

// abstract node = (identity of referent, path text)
pub struct Node<'a, T: Queryable> { pub inner: &'a T, pub path: Seq<char> }
pub open spec fn nd<'a, T: Queryable>(p: Pointer<'a, T>) -> Node<'a, T> { Node { inner: p.inner, path: p.path@ } }
pub open spec fn nodes<'a, T: Queryable>(d: Data<'a, T>) -> Seq<Node<'a, T>> {
    match d { Data::Ref(p) => seq![nd(p)], Data::Refs(v) => v@.map_values(|p: Pointer<'a, T>| nd(p)), _ => Seq::empty() }
}
pub open spec fn concat<A>(parts: Seq<Seq<A>>) -> Seq<A> decreases parts.len() {
    if parts.len() == 0 { Seq::empty() } else { concat(parts.drop_last()) + parts.last() }
}

pub open spec fn mapped<A, B>(x: Seq<A>, h: spec_fn(A) -> Seq<B>) -> Seq<B> { concat(x.map_values(h)) }
// ---- RFC-level spec of one selector applied to one node (index only here) ----
pub uninterp spec fn idx_path(path: Seq<char>, index: usize) -> Seq<char>;
pub open spec fn rfc_index(len: int, i: int) -> Option<int> {
    if i >= 0 { if i < len { Some(i) } else { None } } else { if len + i >= 0 { Some(len + i) } else { None } }
}
pub open spec fn sel_index<'a, T: Queryable>(n: Node<'a, T>, idx: i64) -> Seq<Node<'a, T>> {
    match n.inner.as_array_spec() {
        Some(a) => match rfc_index(a@.len() as int, idx as int) {
            Some(k) => seq![Node { inner: &a@[k], path: idx_path(n.path, k as usize) }],
            None => Seq::empty() },
        None => Seq::empty(),
    }
}
// RFC: apply to every input node in order, concatenate
pub open spec fn seg_index<'a, T: Queryable>(input: Seq<Node<'a, T>>, idx: i64) -> Seq<Node<'a, T>> {
    mapped(input, |n: Node<'a, T>| sel_index(n, idx))
}

#[verifier::external_body]
pub fn process_index<'a, T: Queryable>(p: Pointer<'a, T>, idx: &i64) -> (r: Data<'a, T>)
    ensures nodes(r) == sel_index(nd(p), *idx), r is Ref || r is Nothing,
{ unimplemented!() }

pub open spec fn node_rel_at<'a, T: Queryable, F: Fn(Pointer<'a, T>) -> Data<'a, T>>(f: F, p: Pointer<'a, T>, s: Seq<Node<'a, T>>) -> bool {
    exists|o: Data<'a, T>| #[trigger] f.ensures((p,), o) && s =~= nodes(o)
}
pub open spec fn each_node_by<'a, T: Queryable, F: Fn(Pointer<'a, T>) -> Data<'a, T>>(f: F, x: Seq<Pointer<'a, T>>, parts: Seq<Seq<Node<'a, T>>>) -> bool {
    parts.len() == x.len() && forall|i: int| 0 <= i < x.len() ==> node_rel_at(f, x[i], #[trigger] parts[i])
}
pub open spec fn is_nodes<'a, T: Queryable>(d: Data<'a, T>) -> bool { d is Ref || d is Refs || d is Nothing }
pub open spec fn pins<'a, T: Queryable, F: Fn(Pointer<'a, T>) -> Data<'a, T>>(f: F, h: spec_fn(Node<'a, T>) -> Seq<Node<'a, T>>) -> bool {
    forall|p: Pointer<'a, T>, o: Data<'a, T>| #[trigger] f.ensures((p,), o) ==> nodes(o) == h(nd(p))
}
pub open spec fn nodey<'a, T: Queryable + 'a, F: Fn(Pointer<'a, T>) -> Data<'a, T>>(f: F) -> bool {
    forall|p: Pointer<'a, T>, o: Data<'a, T>| #[trigger] f.ensures((p,), o) ==> is_nodes(o)
}
impl<'a, T: Queryable> Data<'a, T> {
    #[verifier::external_body]
    pub fn flat_map<F>(self, f: F) -> (r: Data<'a, T>)
    where F: Fn(Pointer<'a, T>) -> Data<'a, T>,
        requires forall|p: Pointer<'a, T>| f.requires((p,)),
        ensures
            forall|h: spec_fn(Node<'a, T>) -> Seq<Node<'a, T>>| is_nodes(self) && pins(f, h) ==> nodes(r) == #[trigger] mapped(nodes(self), h),
            is_nodes(self) && nodey(f) ==> is_nodes(r),
            !is_nodes(self) ==> r is Nothing,
    { unimplemented!() }
}
impl<'a, T: Queryable> State<'a, T> {
    pub fn flat_map<F>(self, f: F) -> (r: State<'a, T>)
    where F: Fn(Pointer<'a, T>) -> Data<'a, T>,
        requires forall|p: Pointer<'a, T>| f.requires((p,)),
        ensures r.root == self.root,
            forall|h: spec_fn(Node<'a, T>) -> Seq<Node<'a, T>>| is_nodes(self.data) && pins(f, h) ==> nodes(r.data) == #[trigger] mapped(nodes(self.data), h),
            is_nodes(self.data) && nodey(f) ==> is_nodes(r.data),
            !is_nodes(self.data) ==> r.data is Nothing,
    {
        State {
            root: self.root,
            data: self.data.flat_map(f),
        }
    }
}

// lemma: if every part is pinned to h(x[i]) then concat(parts) == concat(x.map(h))
pub proof fn lemma_parts_pinned<A, B>(x: Seq<A>, parts: Seq<Seq<B>>, h: spec_fn(A) -> Seq<B>)
    requires parts.len() == x.len(), forall|i: int| 0 <= i < x.len() ==> #[trigger] parts[i] == h(x[i]),
    ensures concat(parts) == concat(x.map_values(h)),
{
    assert(parts =~= x.map_values(h));
}

pub enum Selector { Index(i64), Other }

fn process_sel_index<'a, T: Queryable>(step: State<'a, T>, idx: &i64) -> (r: State<'a, T>)
    ensures r.root == step.root,
        is_nodes(step.data) ==> is_nodes(r.data) && nodes(r.data) == seg_index(nodes(step.data), *idx),
{
    step.flat_map(|d: Pointer<'a, T>| -> (o: Data<'a, T>)
        ensures is_nodes(o), nodes(o) == sel_index(nd(d), *idx)
        { process_index(d, idx) })
}
}
fn main() {}
