use vstd::prelude::*;
verus! {
pub enum Filter { Or(Vec<Filter>), And(Vec<Filter>), Atom(FilterAtom) }
pub enum FilterAtom { Filter { expr: Box<Filter>, not: bool }, Test { expr: Box<Tst>, not: bool }, Cmp(u8) }
pub enum Tst { Rel(Vec<Seg>), Abs(Vec<Seg>) }
pub enum Seg { Sel(Sel), Sels(Vec<Sel>), Desc(Box<Seg>) }
pub enum Sel { Name(u8), Filt(Filter) }

pub uninterp spec fn cmp_truth(c: u8, node: int) -> bool;

pub open spec fn filter_truth(f: Filter, node: int) -> bool
    decreases f
{
    match f {
        Filter::Or(fs) => exists|i: int| 0 <= i < fs@.len() && filter_truth(#[trigger] fs@[i], node),
        Filter::And(fs) => forall|i: int| 0 <= i < fs@.len() ==> filter_truth(#[trigger] fs@[i], node),
        Filter::Atom(a) => atom_truth(a, node),
    }
}
pub open spec fn atom_truth(a: FilterAtom, node: int) -> bool
    decreases a
{
    match a {
        FilterAtom::Filter { expr, not } => not != filter_truth(*expr, node),
        FilterAtom::Test { expr, not } => not != (test_nodes(*expr, node).len() > 0),
        FilterAtom::Cmp(c) => cmp_truth(c, node),
    }
}
pub open spec fn test_nodes(t: Tst, node: int) -> Seq<int>
    decreases t
{
    match t { Tst::Rel(segs) => segs_nodes(segs@, seq![node]), Tst::Abs(segs) => segs_nodes(segs@, seq![0int]) }
}
pub open spec fn segs_nodes(segs: Seq<Seg>, input: Seq<int>) -> Seq<int>
    decreases segs
{
    if segs.len() == 0 { input } else { seg_nodes(segs.last(), segs_nodes(segs.drop_last(), input)) }
}
pub open spec fn seg_nodes(s: Seg, input: Seq<int>) -> Seq<int>
    decreases s
{
    match s {
        Seg::Sel(sel) => input.filter(|n: int| sel_keep(sel, n)),
        Seg::Sels(sels) => input,
        Seg::Desc(b) => seg_nodes(*b, input),
    }
}
pub open spec fn sel_keep(s: Sel, n: int) -> bool
    decreases s
{
    match s { Sel::Name(k) => n == k as int, Sel::Filt(f) => filter_truth(f, n) }
}
}
fn main() {}
