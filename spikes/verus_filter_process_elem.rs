use vstd::prelude::*;
verus! {
global size_of usize == 8;
pub type QueryPath = String;
pub trait Queryable: Sized {
    spec fn as_array_spec(&self) -> Option<&Vec<Self>>;
    spec fn as_object_spec(&self) -> Option<Seq<(&String, &Self)>>;
    spec fn as_bool_spec(&self) -> Option<bool>;
    spec fn from_bool_spec(b: bool) -> Self;
    fn as_array(&self) -> (r: Option<&Vec<Self>>) ensures r == self.as_array_spec();
    fn as_object(&self) -> (r: Option<Vec<(&String, &Self)>>)
        ensures match (r, self.as_object_spec()) { (Some(v), Some(s)) => v@ == s, (None, None) => true, _ => false };
    fn as_bool(&self) -> (r: Option<bool>) ensures r == self.as_bool_spec();
    proof fn from_bool_roundtrip(b: bool) ensures Self::from_bool_spec(b).as_bool_spec() == Some(b);
}
pub struct Pointer<'a, T: Queryable> { pub inner: &'a T, pub path: QueryPath }
pub enum Data<'a, T: Queryable> { Ref(Pointer<'a, T>), Refs(Vec<Pointer<'a, T>>), Value(T), Nothing }
pub struct State<'a, T: Queryable> { pub data: Data<'a, T>, pub root: &'a T }

impl<'a, T: Queryable> Clone for Pointer<'a, T> {
    #[verifier::external_body]
    fn clone(&self) -> (r: Self) ensures r == *self { unimplemented!() }
}
impl<'a, T: Queryable> Clone for State<'a, T> {
    #[verifier::external_body]
    fn clone(&self) -> (r: Self) ensures r == *self { unimplemented!() }
}
pub uninterp spec fn idx_path(path: Seq<char>, index: usize) -> Seq<char>;
pub uninterp spec fn key_path(path: Seq<char>, key: Seq<char>) -> Seq<char>;
impl<'a, T: Queryable> Pointer<'a, T> {
    #[verifier::external_body]
    pub fn idx(inner: &'a T, path: QueryPath, index: usize) -> (r: Self)
        ensures r.inner == inner, r.path@ == idx_path(path@, index) { unimplemented!() }
    #[verifier::external_body]
    pub fn key(inner: &'a T, path: QueryPath, key: &str) -> (r: Self)
        ensures r.inner == inner, r.path@ == key_path(path@, key@) { unimplemented!() }
    #[verifier::external_body]
    pub fn empty(inner: &'a T) -> (r: Self) ensures r.inner == inner, r.path@.len() == 0 { unimplemented!() }
    #[verifier::external_body]
    pub fn is_internal(&self) -> (b: bool) ensures b == (self.path@.len() == 0) { unimplemented!() }
}
impl<'a, T: Queryable> State<'a, T> {
    #[verifier::external_body]
    pub fn bool(b: bool, root: &T) -> (r: State<'_, T>)
        ensures r.root == root, r.data == Data::<T>::Value(T::from_bool_spec(b)) { unimplemented!() }
    pub fn data(root: &'a T, data: Data<'a, T>) -> (r: Self) ensures r == (State { root, data }) { State { root, data } }
    pub fn ok_val(self) -> (r: Option<T>) ensures r == (match self.data { Data::Value(v) => Some(v), _ => None }) {
        match self.data { Data::Value(v) => Some(v), _ => None }
    }
}

pub enum FilterAtom { Opaque(u8) }
pub enum Filter { Or(Vec<Filter>), And(Vec<Filter>), Atom(FilterAtom) }

// ----- monolithic spec -----
pub uninterp spec fn atom_state<'a, T: Queryable>(a: FilterAtom, st: State<'a, T>) -> State<'a, T>;
pub open spec fn truthy<'a, T: Queryable>(st: State<'a, T>) -> bool {
    match st.data { Data::Value(v) => v.as_bool_spec() == Some(true), _ => false }
}
pub open spec fn elem_truth<'a, T: Queryable>(f: Filter, st: State<'a, T>) -> bool
    decreases f, 0int
{
    match f {
        Filter::Or(fs) => exists|i: int| 0 <= i < fs@.len() && cond_truth(#[trigger] fs@[i], st),
        Filter::And(fs) => forall|i: int| 0 <= i < fs@.len() ==> cond_truth(#[trigger] fs@[i], st),
        Filter::Atom(a) => truthy(atom_state(a, st)),
    }
}
// truth of a sub-filter evaluated through Query::process on an internal pointer
pub open spec fn cond_truth<'a, T: Queryable>(f: Filter, st: State<'a, T>) -> bool
    decreases f, 1int
{
    match st.data {
        Data::Ref(p) => if p.path@.len() == 0 { elem_truth(f, st) } else { false },
        _ => false,
    }
}

pub trait Query {
    spec fn process_spec<'a, T: Queryable>(&self, state: State<'a, T>) -> State<'a, T>;
    fn process<'a, T: Queryable>(&self, state: State<'a, T>) -> (r: State<'a, T>)
        ensures r == self.process_spec(state);
}
impl Query for FilterAtom {
    open spec fn process_spec<'a, T: Queryable>(&self, state: State<'a, T>) -> State<'a, T> { atom_state(*self, state) }
    #[verifier::external_body]
    fn process<'a, T: Queryable>(&self, state: State<'a, T>) -> (r: State<'a, T>) { unimplemented!() }
}
// what Filter::process yields on an internal pointer (the only case process_elem relies on)
pub uninterp spec fn filter_process_other<'a, T: Queryable>(f: Filter, st: State<'a, T>) -> State<'a, T>;
impl Query for Filter {
    open spec fn process_spec<'a, T: Queryable>(&self, state: State<'a, T>) -> State<'a, T> {
        match state.data {
            Data::Ref(p) => if p.path@.len() == 0 {
                State { root: state.root, data: Data::Value(T::from_bool_spec(elem_truth(*self, state))) }
            } else { filter_process_other(*self, state) },
            _ => filter_process_other(*self, state),
        }
    }
    #[verifier::external_body]
    fn process<'a, T: Queryable>(&self, state: State<'a, T>) -> (r: State<'a, T>) { unimplemented!() }
}

// R5: X.iter().any(P) / X.iter().all(P)
#[verifier::external_body]
pub fn vf_iter_any<A, P: Fn(&A) -> bool>(x: &Vec<A>, p: P) -> (r: bool)
    requires forall|a: &A| p.requires((a,)),
    ensures r ==> exists|i: int| 0 <= i < x@.len() && p.ensures((&#[trigger] x@[i],), true),
            !r ==> forall|i: int| 0 <= i < x@.len() ==> p.ensures((&#[trigger] x@[i],), false),
{ x.iter().any(p) }
#[verifier::external_body]
pub fn vf_iter_all<A, P: Fn(&A) -> bool>(x: &Vec<A>, p: P) -> (r: bool)
    requires forall|a: &A| p.requires((a,)),
    ensures r ==> forall|i: int| 0 <= i < x@.len() ==> p.ensures((&#[trigger] x@[i],), true),
            !r ==> exists|i: int| 0 <= i < x@.len() && p.ensures((&#[trigger] x@[i],), false),
{ x.iter().all(p) }

impl Filter {
    #[verifier::exec_allows_no_decreases_clause]
    fn process_elem<'a, T: Queryable>(&self, state: State<'a, T>) -> (r: State<'a, T>)
        requires state.data matches Data::Ref(p) && p.path@.len() == 0,
        ensures match self {
            Filter::Atom(a) => r == atom_state(*a, state),
            _ => r.root == state.root && r.data == Data::<T>::Value(T::from_bool_spec(elem_truth(*self, state))),
        }
    {
        let st0: Ghost<State<'a, T>> = Ghost(state);
        let process_cond = |filter: &Filter| -> (b: bool)
            ensures b == cond_truth(*filter, st0@),
        {
            proof { T::from_bool_roundtrip(elem_truth(*filter, st0@)); }
            filter
                .process(state.clone())
                .ok_val()
                .and_then(|v: T| -> (o: Option<bool>) ensures o == v.as_bool_spec() { v.as_bool() })
                .unwrap_or_default()
        };
        match self {
            Filter::Or(ors) => State::bool(vf_iter_any(ors, process_cond), state.root),
            Filter::And(ands) => State::bool(vf_iter_all(ands, process_cond), state.root),
            Filter::Atom(atom) => atom.process(state),
        }
    }
}
}
fn main() {}
