use vstd::prelude::*;
verus! {
global size_of usize == 8;
pub type QueryPath = String;
pub trait Queryable: Sized {
    spec fn as_array_spec(&self) -> Option<&Vec<Self>>;
    fn as_array(&self) -> (r: Option<&Vec<Self>>) ensures r == self.as_array_spec();
}
pub struct Pointer<'a, T: Queryable> { pub inner: &'a T, pub path: QueryPath }
pub enum Data<'a, T: Queryable> { Ref(Pointer<'a, T>), Refs(Vec<Pointer<'a, T>>), Value(T), Nothing }

pub open spec fn nodes<'a, T: Queryable>(d: Data<'a, T>) -> Seq<Pointer<'a, T>> {
    match d { Data::Ref(p) => seq![p], Data::Refs(v) => v@, _ => Seq::empty() }
}

// assumed std contract for shape  X.into_iter().flat_map(G).collect::<Vec<_>>()
// relational: there is a sequence of per-element outputs, each allowed by g, whose concatenation is the result
pub open spec fn concat<A>(parts: Seq<Seq<A>>) -> Seq<A> decreases parts.len() {
    if parts.len() == 0 { Seq::empty() } else { concat(parts.drop_last()) + parts.last() }
}
#[verifier::external_body]
pub fn vf_flat_map_collect<A, B, G: Fn(A) -> Vec<B>>(x: Vec<A>, g: G) -> (r: Vec<B>)
    requires forall|a: A| g.requires((a,)),
    ensures exists|parts: Seq<Seq<B>>| parts.len() == x@.len()
        && (forall|i: int| 0 <= i < x@.len() ==> exists|o: Vec<B>| g.ensures((x@[i],), o) && #[trigger] parts[i] == o@)
        && r@ == concat(parts),
{ x.into_iter().flat_map(g).collect::<Vec<_>>() }

impl<'a, T: Queryable> Data<'a, T> {
    pub fn flat_map<F>(self, f: F) -> (r: Data<'a, T>)
    where
        F: Fn(Pointer<'a, T>) -> Data<'a, T>,
        requires forall|p: Pointer<'a, T>| f.requires((p,)),
        ensures match self {
            Data::Ref(data) => f.ensures((data,), r),
            Data::Refs(v) => r is Refs && exists|parts: Seq<Seq<Pointer<'a, T>>>| parts.len() == v@.len()
                && (forall|i: int| 0 <= i < v@.len() ==> exists|o: Data<'a, T>| f.ensures((v@[i],), o) && #[trigger] parts[i] == nodes(o))
                && nodes(r) == concat(parts),
            _ => r is Nothing,
        }
    {
        match self {
            Data::Ref(data) => f(data),
            Data::Refs(data_vec) => Data::Refs(
                vf_flat_map_collect(data_vec, |data: Pointer<'a, T>| -> (o: Vec<Pointer<'a, T>>)
                    requires f.requires((data,)),
                    ensures exists|d: Data<'a, T>| f.ensures((data,), d) && o@ == nodes(d),
                {
                    match f(data) {
                        Data::Ref(data) => vec![data],
                        Data::Refs(data_vec) => data_vec,
                        _ => vec![],
                    }
                }),
            ),
            _ => Data::Nothing,
        }
    }
}
}
fn main() {}
