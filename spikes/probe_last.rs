use jsonpath_rust::JsonPath;
use serde_json::{json, Value};
fn main() {
    let a: Vec<String> = std::env::args().collect();
    match a[1].as_str() {
        "min" => { let d = json!([[1]]); println!("{:?}", d.query_with_path("$[?@[-9223372036854775808]==1]").map(|v| v.len())); }
        "big" => { let d = json!([[1]]); println!("{:?}", d.query_with_path("$[?@[9223372036854775807]==1]").map(|v| v.len())); }
        "deepq" => { let n: usize = a[2].parse().unwrap(); let q = format!("$[?{}@.a{}]", "(".repeat(n), ")".repeat(n)); let d = json!([{"a":1}]); println!("{:?}", d.query_with_path(&q).map(|v| v.len())); }
        "deepd" => { let n: usize = a[2].parse().unwrap(); let mut v = json!(1); for _ in 0..n { v = Value::Array(vec![v]); } let r = v.query_with_path("$..*").map(|v| v.len()); println!("{:?}", r); std::mem::forget(v); }
        _ => {}
    }
}
