use vstd::prelude::*;
verus! {
global size_of usize == 8;
pub type QueryPath = String;
pub trait Queryable: Sized {
    spec fn as_array_spec(&self) -> Option<&Vec<Self>>;
    fn as_array(&self) -> (r: Option<&Vec<Self>>) ensures r == self.as_array_spec();
}
pub struct Pointer<'a, T: Queryable> { pub inner: &'a T, pub path: QueryPath }
pub enum Data<'a, T: Queryable> { Ref(Pointer<'a, T>), Refs(Vec<Pointer<'a, T>>), Value(T), Nothing }
impl<'a, T: Queryable> Clone for Pointer<'a, T> {
    #[verifier::external_body]
    fn clone(&self) -> (r: Self) ensures r == *self { unimplemented!() }
}
pub uninterp spec fn idx_path(path: Seq<char>, index: usize) -> Seq<char>;
impl<'a, T: Queryable> Pointer<'a, T> {
    #[verifier::external_body]
    pub fn idx(inner: &'a T, path: QueryPath, index: usize) -> (r: Self)
        ensures r.inner == inner, r.path@ == idx_path(path@, index),
    { unimplemented!() }
}
pub uninterp spec fn desc_spec<'a, T: Queryable>(p: Pointer<'a, T>) -> Data<'a, T>;
pub uninterp spec fn reduce_spec<'a, T: Queryable>(a: Data<'a, T>, b: Data<'a, T>) -> Data<'a, T>;
pub uninterp spec fn flat_desc_spec<'a, T: Queryable>(a: Data<'a, T>) -> Data<'a, T>;

impl<'a, T: Queryable> Data<'a, T> {
    pub fn new_refs(data: Vec<Pointer<'a, T>>) -> (r: Data<'a, T>) ensures r == Data::Refs(data) { Data::Refs(data) }
    #[verifier::external_body]
    pub fn reduce(self, other: Data<'a, T>) -> (r: Data<'a, T>) ensures r == reduce_spec(self, other) { unimplemented!() }
    #[verifier::external_body]
    pub fn flat_map<F>(self, f: F) -> (r: Data<'a, T>)
        where F: Fn(Pointer<'a, T>) -> Data<'a, T>,
        requires forall|p: Pointer<'a, T>| f.requires((p,)),
    { unimplemented!() }
}
#[verifier::external_body]
pub fn vf_enumerate_map_collect<'x, A, B, F: Fn((usize, &'x A)) -> B>(x: &'x Vec<A>, f: F) -> (r: Vec<B>)
    requires forall|i: usize, a: &'x A| f.requires(((i, a),)),
    ensures r@.len() == x@.len(), forall|i: int| 0 <= i < x@.len() ==> f.ensures(((i as usize, &x@[i]),), #[trigger] r@[i]),
{ x.iter().enumerate().map(f).collect() }

#[verifier::exec_allows_no_decreases_clause]
fn process_descendant<'a, T: Queryable>(data: Pointer<'a, T>) -> (r: Data<'a, T>)
{
    if let Some(array) = data.inner.as_array() {
        Data::Ref(data.clone()).reduce(
            Data::new_refs(
                vf_enumerate_map_collect(array, |__c0: (usize, &'a T)| -> (q: Pointer<'a, T>)
                    { let (i, elem) = __c0; Pointer::idx(elem, data.path.clone(), i) }),
            )
            .flat_map(process_descendant),
        )
    } else {
        Data::Nothing
    }
}
}
fn main() {}
