#[cfg(kani)]
pub(crate) mod verif_k {
    use crate::query::queryable::Queryable;
    /// drop-free Queryable: containers are borrowed, so no recursive drop glue
    #[derive(Clone, Copy, Debug, PartialEq, Default)]
    pub enum K {
        #[default]
        Null,
        Bool(bool),
        Int(i64),
        Float(f64),
        Str(&'static str),
        Arr(&'static Vec<K>),
        Obj(&'static Vec<(String, K)>),
    }
    impl From<&str> for K { fn from(s: &str) -> Self { K::Str(Box::leak(s.to_string().into_boxed_str())) } }
    impl From<String> for K { fn from(s: String) -> Self { K::Str(Box::leak(s.into_boxed_str())) } }
    impl From<bool> for K { fn from(s: bool) -> Self { K::Bool(s) } }
    impl From<i64> for K { fn from(s: i64) -> Self { K::Int(s) } }
    impl From<f64> for K { fn from(s: f64) -> Self { K::Float(s) } }
    impl From<Vec<K>> for K { fn from(s: Vec<K>) -> Self { K::Arr(Box::leak(Box::new(s))) } }
    impl Queryable for K {
        fn get(&self, key: &str) -> Option<&Self> {
            match self { K::Obj(m) => { for (k, v) in m.iter() { if k == key { return Some(v); } } None }, _ => None }
        }
        fn as_array(&self) -> Option<&Vec<Self>> { match self { K::Arr(a) => Some(*a), _ => None } }
        fn as_object(&self) -> Option<Vec<(&String, &Self)>> { match self { K::Obj(m) => Some(m.iter().map(|(k, v)| (k, v)).collect()), _ => None } }
        fn as_str(&self) -> Option<&str> { match self { K::Str(s) => Some(*s), _ => None } }
        fn as_i64(&self) -> Option<i64> { match self { K::Int(i) => Some(*i), _ => None } }
        fn as_f64(&self) -> Option<f64> { match self { K::Float(f) => Some(*f), K::Int(i) => Some(*i as f64), _ => None } }
        fn as_bool(&self) -> Option<bool> { match self { K::Bool(b) => Some(*b), _ => None } }
        fn null() -> Self { K::Null }
    }

    pub fn stub_format(_args: std::fmt::Arguments<'_>) -> String { String::new() }



    #[derive(Clone, Copy, Debug, PartialEq, Default)]
    pub enum S { #[default] Null, Bool(bool), Int(i64), Float(f64), Str(&'static str) }
    impl From<&str> for S { fn from(_s: &str) -> Self { S::Str("") } }
    impl From<String> for S { fn from(_s: String) -> Self { S::Str("") } }
    impl From<bool> for S { fn from(s: bool) -> Self { S::Bool(s) } }
    impl From<i64> for S { fn from(s: i64) -> Self { S::Int(s) } }
    impl From<f64> for S { fn from(s: f64) -> Self { S::Float(s) } }
    impl From<Vec<S>> for S { fn from(_s: Vec<S>) -> Self { S::Null } }
    impl Queryable for S {
        fn get(&self, _key: &str) -> Option<&Self> { None }
        fn as_array(&self) -> Option<&Vec<Self>> { None }
        fn as_object(&self) -> Option<Vec<(&String, &Self)>> { None }
        fn as_str(&self) -> Option<&str> { match self { S::Str(s) => Some(*s), _ => None } }
        fn as_i64(&self) -> Option<i64> { match self { S::Int(i) => Some(*i), _ => None } }
        fn as_f64(&self) -> Option<f64> { match self { S::Float(f) => Some(*f), S::Int(i) => Some(*i as f64), _ => None } }
        fn as_bool(&self) -> Option<bool> { match self { S::Bool(b) => Some(*b), _ => None } }
        fn null() -> Self { S::Null }
    }
    pub fn leak<T>(v: T) -> &'static T { Box::leak(Box::new(v)) }
}

#[cfg(kani)]
mod verif_kani_eval {
    use super::*;
    use crate::parser::model::*;
    use crate::query::verif_k::*;

    fn any_selector() -> Selector {
        let c: u8 = kani::any();
        match c % 4 {
            0 => Selector::Wildcard,
            1 => { let i: i64 = kani::any(); kani::assume(i >= -3 && i <= 3); Selector::Index(i) }
            2 => Selector::Name(if kani::any() { "a".to_string() } else { "b".to_string() }),
            _ => { let s: i64 = kani::any(); kani::assume(s >= -3 && s <= 3); let st: i64 = kani::any(); kani::assume(st >= -2 && st <= 2); Selector::Slice(Some(s), None, Some(st)) }
        }
    }

    // $[*][s1,s2] on [[10,11],[12,13]]: order must be per input node
    #[kani::proof]
    #[kani::stub(alloc::fmt::format, stub_format)]
    #[kani::stub(crate::query::test_function::regex, crate::query::test_function::regex_stub)]
    #[kani::unwind(6)]
    fn eval_union_order() {
        let a0 = leak(vec![K::Int(10), K::Int(11)]);
        let a1 = leak(vec![K::Int(12), K::Int(13)]);
        let top = leak(vec![K::Arr(a0), K::Arr(a1)]);
        let doc = K::Arr(top);
        let i: i64 = kani::any(); kani::assume(i >= 0 && i <= 1);
        let j: i64 = kani::any(); kani::assume(j >= 0 && j <= 1);
        let q = JpQuery::new(vec![Segment::Selector(Selector::Wildcard), Segment::Selectors(vec![Selector::Index(i), Selector::Index(j)])]);
        let r = js_path_process(&q, &doc).unwrap();
        assert!(r.len() == 4);
        assert!(std::ptr::eq(r[0].0, &a0[i as usize]));
        assert!(std::ptr::eq(r[1].0, &a0[j as usize]));
        assert!(std::ptr::eq(r[2].0, &a1[i as usize]));
        assert!(std::ptr::eq(r[3].0, &a1[j as usize]));
    }

    // one symbolic selector on a fixed 3-array: count only
    #[kani::proof]
    #[kani::stub(alloc::fmt::format, stub_format)]
    #[kani::stub(crate::query::test_function::regex, crate::query::test_function::regex_stub)]
    #[kani::unwind(8)]
    fn eval_one_selector() {
        let a0 = leak(vec![K::Int(10), K::Int(11), K::Int(12)]);
        let doc = K::Arr(a0);
        let q = JpQuery::new(vec![Segment::Selector(any_selector())]);
        let r = js_path_process(&q, &doc);
        assert!(r.is_ok());
        assert!(r.unwrap().len() <= 3);
    }
}
