
#[cfg(kani)]
mod verif_kani {
    use super::*;
    use crate::query::queryable::Queryable;

    /// drop-free Queryable: containers are borrowed, so no recursive drop glue
    #[derive(Clone, Copy, Debug, PartialEq, Default)]
    pub enum K {
        #[default]
        Null,
        Bool(bool),
        Int(i64),
        Float(f64),
        Str(&'static str),
        Arr(&'static Vec<K>),
        Obj(&'static Vec<(String, K)>),
    }
    impl From<&str> for K { fn from(s: &str) -> Self { K::Str(Box::leak(s.to_string().into_boxed_str())) } }
    impl From<String> for K { fn from(s: String) -> Self { K::Str(Box::leak(s.into_boxed_str())) } }
    impl From<bool> for K { fn from(s: bool) -> Self { K::Bool(s) } }
    impl From<i64> for K { fn from(s: i64) -> Self { K::Int(s) } }
    impl From<f64> for K { fn from(s: f64) -> Self { K::Float(s) } }
    impl From<Vec<K>> for K { fn from(s: Vec<K>) -> Self { K::Arr(Box::leak(Box::new(s))) } }
    impl Queryable for K {
        fn get(&self, key: &str) -> Option<&Self> {
            match self { K::Obj(m) => { for (k, v) in m.iter() { if k == key { return Some(v); } } None }, _ => None }
        }
        fn as_array(&self) -> Option<&Vec<Self>> { match self { K::Arr(a) => Some(*a), _ => None } }
        fn as_object(&self) -> Option<Vec<(&String, &Self)>> { match self { K::Obj(m) => Some(m.iter().map(|(k, v)| (k, v)).collect()), _ => None } }
        fn as_str(&self) -> Option<&str> { match self { K::Str(s) => Some(*s), _ => None } }
        fn as_i64(&self) -> Option<i64> { match self { K::Int(i) => Some(*i), _ => None } }
        fn as_f64(&self) -> Option<f64> { match self { K::Float(f) => Some(*f), K::Int(i) => Some(*i as f64), _ => None } }
        fn as_bool(&self) -> Option<bool> { match self { K::Bool(b) => Some(*b), _ => None } }
        fn null() -> Self { K::Null }
    }

    fn stub_format(_args: std::fmt::Arguments<'_>) -> String { String::new() }

    fn mk_arr(n: usize) -> &'static Vec<K> {
        let mut v = Vec::new();
        for i in 0..n { v.push(K::Int(i as i64)); }
        Box::leak(Box::new(v))
    }

    #[kani::proof]
    #[kani::stub(alloc::fmt::format, stub_format)]
    #[kani::unwind(5)]
    fn index_small() {
        let n: usize = kani::any();
        kani::assume(n <= 3);
        let arr = mk_arr(n);
        let doc = K::Arr(arr);
        let idx: i64 = kani::any();
        kani::assume(idx >= -9007199254740991 && idx <= 9007199254740991);
        let r = process_index(Pointer::new(&doc, String::new()), &idx);
        let exp: Option<usize> = if idx >= 0 { if (idx as usize) < n { Some(idx as usize) } else { None } } else { let a = (-idx) as usize; if a <= n { Some(n - a) } else { None } };
        match (r, exp) {
            (Data::Ref(p), Some(i)) => { assert!(std::ptr::eq(p.inner, &arr[i])); }
            (Data::Nothing, None) => {}
            _ => { assert!(false); }
        }
    }

    #[kani::proof]
    #[kani::stub(alloc::fmt::format, stub_format)]
    #[kani::unwind(5)]
    fn index_any_i64_no_panic() {
        let n: usize = kani::any();
        kani::assume(n <= 3);
        let arr = mk_arr(n);
        let doc = K::Arr(arr);
        let idx: i64 = kani::any();
        let _ = process_index(Pointer::new(&doc, String::new()), &idx);
    }
}
