use vstd::prelude::*;
verus! {
global size_of usize == 8;
pub type QueryPath = String;
pub trait Queryable: Sized {
    spec fn as_array_spec(&self) -> Option<&Vec<Self>>;
    spec fn as_object_spec(&self) -> Option<Seq<(&String, &Self)>>;
    spec fn from_bool_spec(b: bool) -> Self;
    fn as_array(&self) -> (r: Option<&Vec<Self>>) ensures r == self.as_array_spec();
    fn as_object(&self) -> (r: Option<Vec<(&String, &Self)>>)
        ensures match (r, self.as_object_spec()) { (Some(v), Some(s)) => v@ == s, (None, None) => true, _ => false };
}
pub struct Pointer<'a, T: Queryable> { pub inner: &'a T, pub path: QueryPath }
pub enum Data<'a, T: Queryable> { Ref(Pointer<'a, T>), Refs(Vec<Pointer<'a, T>>), Value(T), Nothing }
pub struct State<'a, T: Queryable> { pub data: Data<'a, T>, pub root: &'a T }

pub uninterp spec fn idx_path(path: String, index: usize) -> String;
pub uninterp spec fn key_path(path: String, key: &str) -> String;
#[verifier::external_body]
pub fn from_bool<T: Queryable>(b: bool) -> (r: T) ensures r == T::from_bool_spec(b) { unimplemented!() }

impl<'a, T: Queryable> Pointer<'a, T> {
    #[verifier::external_body]
    pub fn idx(inner: &'a T, path: QueryPath, index: usize) -> (r: Self)
        ensures r == (Pointer { inner, path: idx_path(path, index) }) { unimplemented!() }
    #[verifier::external_body]
    pub fn key(inner: &'a T, path: QueryPath, key: &str) -> (r: Self)
        ensures r == (Pointer { inner, path: key_path(path, key) }) { unimplemented!() }
    #[verifier::external_body]
    pub fn empty(inner: &'a T) -> (r: Self) ensures r.inner == inner, r.path@.len() == 0 { unimplemented!() }
    #[verifier::external_body]
    pub fn is_internal(&self) -> (b: bool) ensures b == (self.path@.len() == 0) { unimplemented!() }
}
#[verifier::external_body]
pub fn string_clone(s: &String) -> (r: String) ensures r == *s { s.clone() }

pub enum Filter { Opaque(u8) }
pub uninterp spec fn filter_truth<'a, T: Queryable>(f: &Filter, node: &'a T, root: &'a T) -> bool;
impl Filter {
    #[verifier::external_body]
    fn filter_item<'a, T: Queryable>(&self, item: Pointer<'a, T>, root: &'a T) -> (b: bool)
        ensures b == filter_truth(self, item.inner, root) { unimplemented!() }
}

// R4: X.into_iter().enumerate().filter(P).map(F).collect()   (spec: order-preserving sub-sequence of indices)
pub open spec fn kept(n: int, keep: spec_fn(int) -> bool) -> Seq<int>
    decreases n
{
    if n <= 0 { Seq::empty() }
    else { let rest = kept(n - 1, keep); if keep(n - 1) { rest.push(n - 1) } else { rest } }
}
pub open spec fn kept_mapped<B>(n: int, keep: spec_fn(int) -> bool, out: spec_fn(int) -> B) -> Seq<B> {
    kept(n, keep).map_values(|i: int| out(i))
}
#[verifier::external_body]
pub fn vf_enumerate_filter_map_collect<'x, A, B, P: Fn(&(usize, &'x A)) -> bool, F: Fn((usize, &'x A)) -> B>(x: &'x Vec<A>, p: P, f: F) -> (r: Vec<B>)
    requires forall|a: &(usize, &'x A)| p.requires((a,)), forall|a: (usize, &'x A)| f.requires((a,)),
    ensures forall|keep: spec_fn(int) -> bool, out: spec_fn(int) -> B|
        (forall|i: usize, b: bool| i < x@.len() && #[trigger] p.ensures((&(i, &x@[i as int]),), b) ==> b == keep(i as int))
        && (forall|i: usize, o: B| i < x@.len() && #[trigger] f.ensures(((i, &x@[i as int]),), o) ==> o == out(i as int))
        ==> r@ == #[trigger] kept_mapped(x@.len() as int, keep, out),
{ x.into_iter().enumerate().filter(p).map(f).collect() }

pub open spec fn sel_filter_arr<'a, T: Queryable>(fl: &Filter, a: &'a Vec<T>, path: String, root: &'a T) -> Seq<Pointer<'a, T>> {
    kept_mapped(a@.len() as int, |i: int| filter_truth(fl, &a@[i], root), |i: int| Pointer { inner: &a@[i], path: idx_path(path, i as usize) })
}

fn filter_array<'a, T: Queryable>(fl: &Filter, items: &'a Vec<T>, path: &String, root: &'a T) -> (r: Vec<Pointer<'a, T>>)
    ensures r@ == sel_filter_arr(fl, items, *path, root),
{
    vf_enumerate_filter_map_collect(items,
        |__c0: &(usize, &'a T)| -> (b: bool) ensures b == filter_truth(fl, __c0.1, root)
            { let (_, item) = __c0; fl.filter_item(Pointer::empty(*item), root) },
        |__c1: (usize, &'a T)| -> (q: Pointer<'a, T>) ensures q == (Pointer { inner: __c1.1, path: idx_path(*path, __c1.0) })
            { let (idx, item) = __c1; Pointer::idx(item, string_clone(path), idx) })
}
}
fn main() {}
