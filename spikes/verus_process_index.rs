use vstd::prelude::*;
verus! {

global size_of usize == 8;
pub type QueryPath = String;

pub trait Queryable: Sized {
    spec fn as_array_spec(&self) -> Option<&Vec<Self>>;
    fn as_array(&self) -> (r: Option<&Vec<Self>>)
        ensures r == self.as_array_spec();
}

pub struct Pointer<'a, T: Queryable> {
    pub inner: &'a T,
    pub path: QueryPath,
}

pub enum Data<'a, T: Queryable> {
    Ref(Pointer<'a, T>),
    Refs(Vec<Pointer<'a, T>>),
    Value(T),
    Nothing,
}

impl<'a, T: Queryable> Default for Data<'a, T> {
    fn default() -> (r: Self)
        ensures r == Data::<'a, T>::Nothing,
    {
        Data::Nothing
    }
}

impl<'a, T: Queryable> Data<'a, T> {
    pub fn new_ref(data: Pointer<'a, T>) -> (r: Data<'a, T>)
        ensures r == Data::Ref(data),
    {
        Data::Ref(data)
    }
}

pub assume_specification [i64::abs](x: i64) -> (r: i64)
    requires x != i64::MIN,
    ensures r == (if x >= 0 { x as int } else { -(x as int) });

pub open spec fn ijson(v: int) -> bool { -9007199254740991 <= v <= 9007199254740991 }
pub open spec fn rfc_index(len: int, i: int) -> Option<int> {
    if i >= 0 { if i < len { Some(i) } else { None } } else { if len + i >= 0 { Some(len + i) } else { None } }
}
pub uninterp spec fn idx_path(path: Seq<char>, index: usize) -> Seq<char>;

impl<'a, T: Queryable> Pointer<'a, T> {
    #[verifier::external_body]
    pub fn idx(inner: &'a T, path: QueryPath, index: usize) -> (r: Self)
        ensures r.inner == inner, r.path@ == idx_path(path@, index),
    {
        Pointer {
            inner,
            path: format!("{}[{}]", path, index),
        }
    }
}

pub fn process_index<'a, T: Queryable>(
    __p0: Pointer<'a, T>,
    idx: &i64,
) -> (r: Data<'a, T>)
    requires ijson(*idx as int), __p0.inner.as_array_spec() matches Some(a) ==> a@.len() < 0x4000_0000_0000_0000,
    ensures match (__p0.inner.as_array_spec(), r) {
        (None, Data::Nothing) => true,
        (Some(a), Data::Nothing) => rfc_index(a@.len() as int, *idx as int) is None,
        (Some(a), Data::Ref(p)) => match rfc_index(a@.len() as int, *idx as int) {
            Some(i) => p.inner == &a@[i] && p.path@ == idx_path(__p0.path@, i as usize),
            None => false },
        _ => false,
    }
{
    let Pointer { inner, path } = __p0;
    inner
        .as_array()
        .map(|array: &'a Vec<T>| -> (d: Data<'a, T>)
            requires ijson(*idx as int), array@.len() < 0x4000_0000_0000_0000,
            ensures match d {
                Data::Nothing => rfc_index(array@.len() as int, *idx as int) is None,
                Data::Ref(p) => match rfc_index(array@.len() as int, *idx as int) {
                    Some(i) => p.inner == &array@[i] && p.path@ == idx_path(path@, i as usize),
                    None => false },
                _ => false,
            }
        {
            if *idx >= 0 {
                if *idx >= array.len() as i64 {
                    Data::Nothing
                } else {
                    let i = *idx as usize;
                    Data::new_ref(Pointer::idx(&array[i], path, i))
                }
            } else {
                let abs_idx = idx.abs() as usize;
                assert(*idx < 0);
                assert(abs_idx as int == -(*idx as int));
                if abs_idx > array.len() {
                    Data::Nothing
                } else {
                    let i = array.len() - abs_idx;
                    Data::new_ref(Pointer::idx(&array[i], path, i))
                }
            }
        })
        .unwrap_or_default()
}
}
fn main() {}
